//go:build verif

// Package verif is the harness API of the gosym symbolic executor.
//
// Under gosym every function below is intercepted: the nondeterministic ones return
// symbolic values, Assume/Assert become path constraints and solver obligations.
// Compiled natively (this file), they read a replay vector produced from a solver model,
// so that the very same harness is the replay test of a counterexample.
package verif

import (
	"encoding/json"
	"fmt"
	"os"
)

type input struct {
	Name  string `json:"name"`
	Kind  string `json:"kind"`
	Value uint64 `json:"value"`
}

var (
	vec []input
	pos int
)

// AssumeFailed is the panic value used when a replayed input violates an assumption.
type AssumeFailed struct{}

// AssertFailed is the panic value used when an assertion fails natively.
type AssertFailed struct{ Msg string }

// Load reads a replay vector (JSON list of inputs).
func Load(path string) error {
	b, err := os.ReadFile(path)
	if err != nil {
		return err
	}
	var v struct {
		Inputs []input `json:"inputs"`
	}
	if err := json.Unmarshal(b, &v); err != nil {
		return err
	}
	vec, pos = v.Inputs, 0
	return nil
}

func next() uint64 {
	if pos >= len(vec) {
		pos++
		return 0
	}
	v := vec[pos].Value
	pos++
	return v
}

func Byte(label string) byte                 { return byte(next()) }
func Rune(label string) rune                 { return rune(int32(uint32(next()))) }
func Int(label string) int                   { return int(next()) }
func Bool(label string) bool                 { return next() != 0 }
func IntRange(label string, lo, hi int) int  { v := int(next()); Assume(lo <= v && v <= hi); return v }
func Len(label string, lo, hi int) int       { v := int(next()); Assume(lo <= v && v <= hi); return v }
func Pick(label string, n int) int           { v := int(next()); Assume(0 <= v && v < n); return v }
func Choice(label string, n int) int         { v := int(next()); Assume(0 <= v && v < n); return v }
func Enum(label string, choices ...string) string {
	v := int(next())
	Assume(0 <= v && v < len(choices))
	return choices[v]
}
func Bytes(label string, n int) []byte {
	out := make([]byte, n)
	for i := range out {
		out[i] = byte(next())
	}
	return out
}

func Assume(c bool) {
	if !c {
		fmt.Println("VERIF-ASSUME-FAILED")
		panic(AssumeFailed{})
	}
}

func Assert(c bool, msg string) {
	if !c {
		fmt.Println("VERIF-ASSERT-FAILED: " + msg)
		panic(AssertFailed{msg})
	}
}

func Fail(msg string) { Assert(false, msg) }

func Reach(label string) {}
func Tag(label string)   {}

func And(a, b bool) bool     { return a && b }
func Or(a, b bool) bool      { return a || b }
func Not(a bool) bool        { return !a }
func Implies(a, b bool) bool { return !a || b }
func Iff(a, b bool) bool     { return a == b }
func IteInt(c bool, a, b int) int {
	if c {
		return a
	}
	return b
}
func IteBool(c bool, a, b bool) bool {
	if c {
		return a
	}
	return b
}
func StrEq(a, b string) bool { return a == b }

func Concretize(x int) int              { return x }
func ConcretizeByte(x byte) byte        { return x }
func ConcretizeString(s string) string  { return s }
func IsSymbolic(x any) bool             { return false }
func Symbolic() bool                    { return false }
func String(b []byte) string            { return string(b) }

func Yield()         {}
// FreeMapOrder(true): from here on the iteration order of Go maps (in the functions the configuration
// names) is a free decision of the path; natively a no-op (the Go runtime randomises by itself).
func FreeMapOrder(on bool) {}
func Go(f func())    { f() }
func Wait()          {}

// RunReplay loads the vector named by VERIF_REPLAY and runs the harness, reporting how it ended.
func RunReplay(harnesses map[string]func()) {
	name := os.Getenv("VERIF_HARNESS")
	h, ok := harnesses[name]
	if !ok {
		fmt.Println("VERIF-REPLAY-ERROR: unknown harness " + name)
		return
	}
	if p := os.Getenv("VERIF_REPLAY"); p != "" {
		if err := Load(p); err != nil {
			fmt.Println("VERIF-REPLAY-ERROR: " + err.Error())
			return
		}
	}
	defer func() {
		r := recover()
		switch r := r.(type) {
		case nil:
			fmt.Println("VERIF-REPLAY-END: completed")
		case AssumeFailed:
			fmt.Println("VERIF-REPLAY-END: assume-failed")
		case AssertFailed:
			fmt.Println("VERIF-REPLAY-END: assert-failed: " + r.Msg)
		default:
			fmt.Printf("VERIF-REPLAY-END: panic: %v\n", r)
		}
	}()
	h()
}

// EnumMap returns to[i] where e == from[i] (e itself if it is not listed).
func EnumMap(e string, from, to []string) string {
	for i := range from {
		if from[i] == e {
			return to[i]
		}
	}
	return e
}
