//go:build verif

package main

import (
	"errors"
	"flag"

	"github.com/gardenbed/charm/ui"

	"github.com/gardenbed/emerge/internal/command"
	"github.com/gardenbed/emerge/internal/verif"
)

type mainUI struct {
	ui.UI
	errors int
}

func (u *mainUI) Errorf(s ui.Style, format string, a ...interface{}) { u.errors++ }
func (u *mainUI) SetLevel(l ui.Level)                                {}

var (
	theUI     *mainUI
	exited    = false
	exitCode  = -1
	anyError  = false
	helpFlag  = false
	errStub   = errors.New("stub: failure")
	flagError = false
)

type exitSentinel struct{}

func stubExit(code int) {
	exited = true
	exitCode = code
	panic(exitSentinel{})
}

func stubUINew(l ui.Level) ui.UI {
	theUI = &mainUI{UI: ui.NewNop()}
	return theUI
}

func stubGetwd() (string, error) {
	if verif.Pick("getwd", 2) == 1 {
		anyError = true
		return "", errStub
	}
	return "/work", nil
}

func stubRegister(fs *flag.FlagSet, s any, cont bool) error {
	if verif.Pick("register", 2) == 1 {
		anyError = true
		return errStub
	}
	// the flags the command line will have set (any combination)
	if c, ok := s.(*command.Command); ok {
		c.Help = verif.Pick("help-flag", 2) == 1
		c.Version = verif.Pick("version-flag", 2) == 1
		c.Verbose = verif.Pick("verbose-flag", 2) == 1
	}
	return nil
}

func stubFlagParse(fs *flag.FlagSet, args []string) error {
	switch verif.Pick("flagparse", 3) {
	case 1:
		anyError = true
		flagError = true
		return errStub // an undefined flag, a malformed value
	case 2:
		helpFlag = true
		return flag.ErrHelp // -h
	}
	return nil
}

func stubFlagArgs(fs *flag.FlagSet) []string { return []string{"spec.grammar"} }

func stubRun(c *command.Command, args []string) error {
	if verif.Pick("run", 2) == 1 {
		anyError = true
		return errStub
	}
	return nil
}

func stubPrintHelp(c *command.Command) error {
	if verif.Pick("help", 2) == 1 {
		anyError = true
		return errStub
	}
	return nil
}

// harnessC16Main: whatever the environment does, main ends through os.Exit; any failure (bad flags
// included) gives a message and a non-zero status, never a Go panic; status 0 only if nothing failed.
func harnessC16Main() {
	defer func() {
		r := recover()
		if r != nil {
			_, isExit := r.(exitSentinel)
			verif.Assert(isExit, "the command ends in a Go panic (a stack trace) instead of a message and an exit status")
			if !isExit {
				return
			}
		}
		verif.Reach("main ended")
		verif.Assert(exited, "main returns without setting an exit status")
		if anyError {
			verif.Assert(exitCode != 0, "a failure ends with exit status 0")
			verif.Assert(theUI != nil && theUI.errors > 0, "a failure ends without a message")
		} else {
			verif.Assert(exitCode == 0, "a run in which nothing failed ends with a non-zero status")
		}
	}()
	main()
}
