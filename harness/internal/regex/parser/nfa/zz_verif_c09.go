//go:build verif

package nfa

import (
	"strings"

	"github.com/gardenbed/emerge/internal/verif"
)

// ---- recogniser of the documented pattern grammar (docs/5-definitions.md, "Regular Expression") ----
//
// Character level, over symbolic bytes, without branching: every predicate is a Boolean term.
// regex = ["^"] expr ; expr = subexpr ["|" expr] ; subexpr = {{item}} ; item = anchor | group | match ...

type pg struct {
	b    []byte
	memo map[[3]int]bool
	done map[[3]int]bool
}

const (
	ntExpr = iota
	ntSubexpr
	ntItem
	ntMatchItem
	ntSingle
	ntQuant
	ntGroupItems
	ntGroupItem
	ntCharInRange
	ntNum
	ntClass
)

func and(a, b bool) bool { return verif.And(a, b) }
func or(a, b bool) bool  { return verif.Or(a, b) }

func (g *pg) is(i int, c byte) bool { return g.b[i] == c }

func (g *pg) lit(i, j int, s string) bool {
	if j-i != len(s) {
		return false
	}
	r := true
	for k := 0; k < len(s); k++ {
		r = and(r, g.b[i+k] == s[k])
	}
	return r
}

func (g *pg) anyOf(i, j int, words ...string) bool {
	r := false
	for _, w := range words {
		r = or(r, g.lit(i, j, w))
	}
	return r
}

func isHexDigit(c byte) bool { return or(and(c >= '0', c <= '9'), and(c >= 'A', c <= 'F')) }
func isDigit(c byte) bool    { return and(c >= '0', c <= '9') }
func isChar(c byte) bool     { return and(c >= 0x20, c <= 0x7E) }

func isEscapable(c byte) bool {
	r := false
	for _, e := range []byte("\\|.?*+()[]{}$") {
		r = or(r, c == e)
	}
	return r
}

func (g *pg) hexChar(i, j int) bool { // ascii_char | unicode_char
	n := j - i
	if n != 4 && (n < 6 || n > 10) {
		return false
	}
	r := and(g.is(i, '\\'), g.is(i+1, 'x'))
	for k := i + 2; k < j; k++ {
		r = and(r, isHexDigit(g.b[k]))
	}
	return r
}

func (g *pg) get(nt, i, j int) bool {
	k := [3]int{nt, i, j}
	if g.done[k] {
		return g.memo[k]
	}
	g.done[k] = true
	g.memo[k] = false
	r := g.compute(nt, i, j)
	g.memo[k] = r
	return r
}

func (g *pg) compute(nt, i, j int) bool {
	if i >= j {
		return false
	}
	switch nt {
	case ntExpr: // subexpr | subexpr "|" expr
		r := g.get(ntSubexpr, i, j)
		for m := i + 1; m < j-1; m++ {
			r = or(r, and(and(g.get(ntSubexpr, i, m), g.is(m, '|')), g.get(ntExpr, m+1, j)))
		}
		return r
	case ntSubexpr: // item+
		r := g.get(ntItem, i, j)
		for m := i + 1; m < j; m++ {
			r = or(r, and(g.get(ntItem, i, m), g.get(ntSubexpr, m, j)))
		}
		return r
	case ntItem: // "$" | "(" expr ")" quant? | matchitem quant?
		r := false
		if j-i == 1 {
			r = g.is(i, '$')
		}
		for e := i + 1; e <= j; e++ { // body ends at e, quantifier is [e,j)
			q := e == j
			if !q {
				q = g.get(ntQuant, e, j)
			}
			body := g.get(ntMatchItem, i, e)
			if e-i >= 3 {
				body = or(body, and(and(g.is(i, '('), g.is(e-1, ')')), g.get(ntExpr, i+1, e-1)))
			}
			r = or(r, and(body, q))
		}
		return r
	case ntMatchItem: // any_char | single_char | char_class | ascii_char_class | unicode_char_class | char_group
		r := g.get(ntSingle, i, j)
		if j-i == 1 {
			r = or(r, g.is(i, '.'))
		}
		r = or(r, g.get(ntClass, i, j))
		if j-i >= 3 { // "[" "^"? groupitem+ "]"
			grp := and(g.is(i, '['), g.is(j-1, ']'))
			inner := g.get(ntGroupItems, i+1, j-1)
			if j-i >= 4 {
				inner = or(inner, and(g.is(i+1, '^'), g.get(ntGroupItems, i+2, j-1)))
			}
			r = or(r, and(grp, inner))
		}
		return r
	case ntClass: // \s \S \d \D \w \W | [:name:] | \p{Cat} \P{Cat}
		r := g.anyOf(i, j, `\s`, `\S`, `\d`, `\D`, `\w`, `\W`,
			"[:blank:]", "[:space:]", "[:digit:]", "[:xdigit:]", "[:upper:]", "[:lower:]", "[:alpha:]", "[:alnum:]", "[:word:]", "[:ascii:]")
		if j-i >= 5 {
			cat := g.anyOf(i+3, j-1, "Math", "Emoji", "Latin", "Greek", "Cyrillic", "Han", "Persian", "Letter", "Lu", "Ll", "Lt", "Lm", "Lo", "L",
				"Mark", "Mn", "Mc", "Me", "M", "Number", "Nd", "Nl", "No", "N", "Punctuation", "Pc", "Pd", "Ps", "Pe", "Pi", "Pf", "Po", "P",
				"Separator", "Zs", "Zl", "Zp", "Z", "Symbol", "Sm", "Sc", "Sk", "So", "S")
			r = or(r, and(and(and(g.is(i, '\\'), or(g.is(i+1, 'p'), g.is(i+1, 'P'))), and(g.is(i+2, '{'), g.is(j-1, '}'))), cat))
		}
		return r
	case ntSingle: // unicode_char | ascii_char | escaped_char | unescaped_char
		r := g.hexChar(i, j)
		if j-i == 1 {
			r = or(r, and(isChar(g.b[i]), verif.Not(isEscapable(g.b[i]))))
		}
		if j-i == 2 {
			r = or(r, and(g.is(i, '\\'), isEscapable(g.b[i+1])))
		}
		return r
	case ntQuant: // ("?" | "*" | "+" | "{" num ["," [num]] "}") ["?"]
		r := g.rep(i, j)
		if j-i >= 2 {
			r = or(r, and(g.rep(i, j-1), g.is(j-1, '?')))
		}
		return r
	case ntGroupItems:
		r := g.get(ntGroupItem, i, j)
		for m := i + 1; m < j; m++ {
			r = or(r, and(g.get(ntGroupItem, i, m), g.get(ntGroupItems, m, j)))
		}
		return r
	case ntGroupItem: // unicode_char_class | ascii_char_class | char_class | char_range | single_char
		r := or(g.get(ntClass, i, j), g.get(ntSingle, i, j))
		for m := i + 1; m < j-1; m++ {
			r = or(r, and(and(g.get(ntCharInRange, i, m), g.is(m, '-')), g.get(ntCharInRange, m+1, j)))
		}
		return r
	case ntCharInRange: // unicode_char | ascii_char | char
		r := g.hexChar(i, j)
		if j-i == 1 {
			r = or(r, isChar(g.b[i]))
		}
		return r
	case ntNum:
		r := true
		for k := i; k < j; k++ {
			r = and(r, isDigit(g.b[k]))
		}
		return r
	}
	return false
}

func (g *pg) rep(i, j int) bool {
	if i >= j {
		return false
	}
	r := false
	if j-i == 1 {
		r = or(or(g.is(i, '?'), g.is(i, '*')), g.is(i, '+'))
	}
	if j-i >= 3 {
		br := and(g.is(i, '{'), g.is(j-1, '}'))
		inner := g.get(ntNum, i+1, j-1)
		for c := i + 2; c < j-1; c++ { // comma at c
			up := c+1 == j-1
			if !up {
				up = g.get(ntNum, c+1, j-1)
			}
			inner = or(inner, and(and(g.get(ntNum, i+1, c), g.is(c, ',')), up))
		}
		r = or(r, and(br, inner))
	}
	return r
}

// sentence: the whole text is a sentence of the documented pattern grammar.
func sentence(b []byte) bool {
	g := &pg{b: b, memo: map[[3]int]bool{}, done: map[[3]int]bool{}}
	n := len(b)
	if n == 0 {
		return false
	}
	r := g.get(ntExpr, 0, n)
	if n >= 2 {
		r = or(r, and(g.is(0, '^'), g.get(ntExpr, 1, n)))
	}
	return r
}

// harnessC09Whole: for every printable-ASCII text of up to c09N characters, the pattern is accepted
// only if the whole text is a sentence of the documented grammar (no ignored suffix, no unknown
// construct), and a failure is an error value, never a panic or success with a nil result.
func harnessC09Whole() {
	n := verif.Len("n", 0, c09N)
	b := verif.Bytes("p", n)
	for i := range b {
		verif.Assume(verif.And(b[i] >= 0x20, b[i] <= 0x7E))
	}
	res, err := Parse(verif.String(b))
	if err != nil {
		verif.Reach("rejected")
		return
	}
	verif.Reach("accepted")
	_ = res // the automaton constructors are opaque under the engine; nil results are C14's native subject
	verif.Assert(sentence(b), "a text that is not (as a whole) a sentence of the documented pattern grammar is accepted")
}

// c09Frames: fixed openings and closings of the constructs whose shortest instances are longer than the
// whole-text bound (category and class names, repetition bounds, hexadecimal escapes), each with the largest
// number of arbitrary characters put between them (frames whose middle lands inside a bracket group are kept
// short: the mappers branch on every member of a group).
var c09Frames = []struct {
	open, close string
	n           int
}{
	{"\\p{", "}", c09FrameN + 1}, {"\\P{", "}", c09FrameN + 1}, {"[\\p{", "}]", c09FrameN + 1}, {"[^a\\p{", "}]", c09FrameN - 1},
	{"[[:", ":]]", c09FrameN + 1}, {"[^[:", ":]]", c09FrameN},
	{"a{", "}", c09FrameN - 1}, {"(ab){", "}?", c09FrameN - 1},
	{"\\x", "", 3}, {"a\\x00", "b", 3}, {"[\\x", "]", 2}, // every hexadecimal digit left open multiplies the values by 16
	{"(a|", ")*", 2},
}

// harnessC09Framed: the same assertion as harnessC09Whole on texts made of one of the fixed frames around
// arbitrary printable characters: an unknown category or class name, a malformed bound or escape inside the
// frame must make the whole text rejected.
func harnessC09Framed() {
	fi := verif.Pick("frame", len(c09Frames))
	if c09FrameOnly >= 0 {
		verif.Assume(fi == c09FrameOnly)
	}
	fr := c09Frames[fi]
	n := verif.Len("n", 0, c09FrameN+1)
	verif.Assume(n <= fr.n)
	mid := verif.Bytes("p", n)
	for i := range mid {
		verif.Assume(verif.And(mid[i] >= 0x20, mid[i] <= 0x7E))
		if n > c09FrameN {
			// the longest middles (names of categories and classes) are made of letters only
			verif.Assume(verif.Or(verif.And(mid[i] >= 'A', mid[i] <= 'Z'), verif.And(mid[i] >= 'a', mid[i] <= 'z')))
		}
	}
	b := append(append([]byte(fr.open), mid...), fr.close...)
	res, err := Parse(verif.String(b))
	if err != nil {
		verif.Reach("rejected")
		return
	}
	verif.Reach("accepted")
	_ = res
	verif.Assert(sentence(b), "a text that is not (as a whole) a sentence of the documented pattern grammar is accepted: "+fr.open+"..."+fr.close)
}

// harnessC09Meaningless: grammatical but meaningless patterns are rejected with an error naming the
// problem: [x-y] with x > y, and {n,m} with n > m; the meaningful ones are accepted.
func harnessC09Meaningless() {
	switch verif.Pick("shape", 4) {
	case 0, 1:
		// the mappers branch on every member of the group, so the two ends are split into concrete cases
		// by the solver (a window of ten characters around the digit/letter boundary and the letters a-h)
		x, y := verif.Byte("x"), verif.Byte("y")
		for _, c := range []byte{x, y} {
			verif.Assume(verif.Or(verif.And(c >= '5', c <= '>'), verif.And(c >= 'a', c <= 'h')))
		}
		x, y = verif.ConcretizeByte(x), verif.ConcretizeByte(y)
		p := []byte{'[', x, '-', y, ']'}
		if verif.Pick("neg", 2) == 1 {
			p = []byte{'a', '[', '^', x, '-', y, ']', '*'}
		}
		_, err := Parse(verif.String(p))
		if err == nil {
			verif.Reach("range accepted")
			verif.Assert(x <= y, "a descending character range is accepted")
		} else {
			verif.Reach("range rejected")
			verif.Assert(x > y, "an ascending character range is rejected")
			verif.Assert(strings.Contains(err.Error(), "range") || strings.Contains(err.Error(), string([]byte{x, '-', y})), "the error does not name the problem (character range)")
		}
	default:
		n1, m1 := verif.Byte("n1"), verif.Byte("m1")
		verif.Assume(verif.And(isDigit(n1), isDigit(m1)))
		verif.Assume(verif.And(n1 <= '4', m1 <= '4'))
		p := []byte{'a', '{', n1, ',', m1, '}'}
		nv := int(n1 - '0')
		mv := int(m1 - '0')
		_, err := Parse(verif.String(p))
		if err == nil {
			verif.Reach("repetition accepted")
			verif.Assert(nv <= mv, "a repetition range whose minimum exceeds its maximum is accepted")
		} else {
			verif.Reach("repetition rejected")
			verif.Assert(nv > mv, "a valid repetition range is rejected")
			verif.Assert(strings.Contains(err.Error(), "range") || strings.Contains(err.Error(), "repetition") || strings.Contains(err.Error(), "bound"), "the error does not name the problem (repetition range)")
		}
	}
}

// harnessC14Pattern: every string of up to c09N bytes in 0x01..0x7F (control characters included), and
// the empty string, either compiles or is rejected with an error value: no panic, no hang.
func harnessC14Pattern() {
	n := verif.Len("n", 0, c09N)
	b := verif.Bytes("p", n)
	for i := range b {
		verif.Assume(verif.And(b[i] >= 1, b[i] <= 0x7F))
	}
	res, err := Parse(verif.String(b))
	if err != nil {
		verif.Assert(len(err.Error()) > 0, "an error without a description")
		verif.Reach("rejected")
		return
	}
	verif.Reach("accepted")
	// this harness runs with the real automata library, so the result is the real automaton
	verif.Assert(res != nil, "success with a nil result")
}
