//go:build verif

package nfa

import (
	"sync"
	"testing"
)

// TestVerifRace is the native confirmation of a schedule-dependent counterexample of harnessC17Patterns:
// every pattern of the pool is compiled on real goroutines next to every other one, many times, under the
// race detector; an outcome that differs from the isolated one is reported.
func TestVerifRace(t *testing.T) {
	alone := make([]string, len(c17Patterns))
	for i, p := range c17Patterns {
		alone[i] = c17Outcome(p)
	}
	for round := 0; round < 30; round++ {
		var wg sync.WaitGroup
		for g := range c17Patterns {
			wg.Add(1)
			go func(g int) {
				defer wg.Done()
				for k := 0; k < 20; k++ {
					if got := c17Outcome(c17Patterns[g]); got != alone[g] {
						t.Errorf("VERIF-RACE-RESULT: pattern %q gives %q concurrently, %q alone", c17Patterns[g], got, alone[g])
						return
					}
				}
			}(g)
		}
		wg.Wait()
	}
}
