//go:build verif

package nfa

import (
	"fmt"
	"os"
	"testing"
)

// TestVerifExtreme compiles one pattern (environment variable VERIF_PATTERN) and builds its automaton; the
// driver runs it in a process of its own under a time and memory limit (C14: no input crashes or hangs).
func TestVerifExtreme(t *testing.T) {
	p := os.Getenv("VERIF_PATTERN")
	defer func() {
		if r := recover(); r != nil {
			fmt.Printf("VERIF-EXTREME PANIC %v\n", r)
		}
	}()
	n, err := Parse(p)
	if err != nil {
		fmt.Printf("VERIF-EXTREME ERR %v\n", err)
		return
	}
	if n == nil {
		fmt.Printf("VERIF-EXTREME NIL\n")
		return
	}
	d := n.ToDFA()
	fmt.Printf("VERIF-EXTREME OK states=%d\n", len(d.States()))
}
