//go:build verif

package nfa

import (
	"github.com/gardenbed/emerge/internal/verif"
)

// c17Patterns: well-formed patterns, and patterns with a semantic defect, a syntactic defect, or both
// (a defect found by the mappers and a text the parser cannot finish leave state behind in different places).
var c17Patterns = []string{"abc", "[a-c]+x?", "[b-a](", "a{3,1})", "[9-0]", "a{2,1}", "(ab", "x{1,2}"}

func c17Outcome(p string) string {
	n, err := Parse(p)
	if err != nil {
		return "error: " + err.Error()
	}
	if n == nil {
		return "nil automaton"
	}
	return "accepted"
}

// harnessC17Patterns: the outcome of compiling a pattern (accepted, or the text of the error) is the same
// whether it is compiled first, after any other pattern of the pool, or on a goroutine next to another one.
func harnessC17Patterns() {
	x := verif.Pick("x", len(c17Patterns))
	y := verif.Pick("y", len(c17Patterns))
	px, py := c17Patterns[x], c17Patterns[y]
	alone := c17Outcome(px)
	other := c17Outcome(py)
	after := c17Outcome(px)
	verif.Reach("sequential")
	verif.Assert(alone == after, "the outcome of compiling a pattern depends on what was compiled before: "+px+" after "+py+": "+after+" (alone: "+alone+")")
	verif.Assert(c17Outcome(py) == other, "the outcome of compiling a pattern depends on what was compiled before: "+py+" after "+px)
	var rx, ry string
	verif.Go(func() { rx = c17Outcome(px) })
	verif.Go(func() { ry = c17Outcome(py) })
	verif.Wait()
	verif.Reach("both finished")
	verif.Assert(rx == alone, "compiling a pattern next to another one changes its outcome (first goroutine): "+px+" next to "+py+": "+rx+" (alone: "+alone+")")
	verif.Assert(ry == other, "compiling a pattern next to another one changes its outcome (second goroutine): "+py+" next to "+px+": "+ry+" (alone: "+other+")")
}
