//go:build verif

package golang

import (
	"errors"
	"os"
	"path/filepath"
	"strings"
	"time"

	"github.com/gardenbed/charm/ui"

	"github.com/gardenbed/emerge/internal/ebnf/parser/spec"
	"github.com/gardenbed/emerge/internal/verif"
)

// ---- the operating system as a nondeterministic stub (gosym redirects the os calls here) -----------

// fail: may this stub call fail?  At most two failures are injected per run (any two steps).
func fail(label string) bool {
	if osCalm {
		return false
	}
	if osFailures >= 2 {
		return false
	}
	if verif.Pick(label, 2) == 1 {
		osFailures++
		osAllOK = false
		return true
	}
	return false
}

var (
	osFailures     = 0
	osCalm         = false // C15: the operating system always succeeds and the template data is recorded
	osTrace        []string // every mutating call, in order
	osAllOK        = true   // no stub has reported a failure so far
	osOpened       []string // files opened for writing
	osForbidden    = false  // a call that can modify, truncate or delete something that existed
	errStubMissing = errors.New("stub: no such file or directory")
	errStubOther   = errors.New("stub: permission denied")
	stubIDValid    = true
	stubIsDir      = true
)

type stubInfo struct{ dir bool }

func (s stubInfo) Name() string       { return "x" }
func (s stubInfo) Size() int64        { return 0 }
func (s stubInfo) Mode() os.FileMode  { return 0 }
func (s stubInfo) ModTime() time.Time { return time.Time{} }
func (s stubInfo) IsDir() bool        { return s.dir }
func (s stubInfo) Sys() any           { return nil }

func stubStat(name string) (os.FileInfo, error) {
	if osCalm {
		return stubInfo{dir: true}, nil
	}
	switch verif.Pick("stat", 4) {
	case 0:
		return stubInfo{dir: true}, nil
	case 1:
		osAllOK = false
		stubIsDir = false
		return stubInfo{dir: false}, nil
	case 2:
		osAllOK = false
		return nil, errStubMissing
	}
	osAllOK = false
	return nil, errStubOther
}

func stubIsNotExist(err error) bool { return err == errStubMissing }

func stubMkdir(name string, perm os.FileMode) error {
	osTrace = append(osTrace, "Mkdir "+name)
	if fail("mkdir") {
		return errStubOther // e.g. the directory exists already
	}
	return nil
}

func stubOpenFile(name string, flag int, perm os.FileMode) (*os.File, error) {
	osTrace = append(osTrace, "OpenFile "+name)
	if flag&os.O_CREATE == 0 || flag&os.O_EXCL == 0 || flag&os.O_TRUNC != 0 || flag&os.O_APPEND != 0 {
		osForbidden = true // without O_CREATE|O_EXCL an existing file could be opened and modified
	}
	if fail("open") {
		return nil, errStubOther
	}
	osOpened = append(osOpened, name)
	return nil, nil
}

func stubForbidden1(name string) error              { osForbidden = true; return nil }
func stubForbidden2(a, b string) error              { osForbidden = true; return nil }
func stubCreate(name string) (*os.File, error)      { osForbidden = true; return nil, nil }
func stubWriteFile(n string, d []byte, p os.FileMode) error { osForbidden = true; return nil }
func stubMkdirAll(name string, perm os.FileMode) error { osForbidden = true; return nil }

func stubIsIDValid(name string) bool {
	if osCalm {
		return true
	}
	if verif.Pick("idvalid", 2) == 1 {
		stubIDValid = false
		osAllOK = false
		return false
	}
	return true
}

func stubRender(g *generator, filename string, data any) error {
	// renderTemplate with the template engine taken out: read the template, open the file exclusively, execute.
	path := filepath.Join(g.Path, g.Spec.Name, filename)
	f, err := os.OpenFile(path, os.O_CREATE|os.O_WRONLY|os.O_EXCL, 0666)
	if err != nil {
		return err
	}
	_ = f
	return nil
}

func stubExecute(tmpl any, w any, data any) error {
	if osCalm {
		c15Record(data)
		return nil
	}
	if fail("execute") {
		return errStubOther // a write error in the middle of a file
	}
	return nil
}

var c16Outs = []string{".", "out", "a/b/../c"}
var c16Names = []string{"pkg", "calc", "x1"}

// harnessC16Generate: Generate against an arbitrary operating system.  It succeeds iff every step
// succeeded and all six files were opened exclusively under <out>/<name>; an invalid name is rejected
// before anything is created; no call is made that could modify, truncate or delete something existing.
func harnessC16Generate() {
	s, err := spec.Parse("f", strings.NewReader("grammar g;\nID = /[a-z]+/;\nstart = \"x\" ID;\n"))
	verif.Assume(err == nil)
	out := c16Outs[verif.Pick("out", len(c16Outs))]
	s.Name = c16Names[verif.Pick("name", len(c16Names))]
	err = Generate(ui.NewNop(), &Params{Path: out, Spec: s})
	verif.Reach("generate returned")
	verif.Assert(!osForbidden, "a call that can modify, truncate or delete a pre-existing file or directory")
	dir := filepath.Join(filepath.Clean(out), s.Name)
	for _, t := range osTrace {
		ok := t == "Mkdir "+dir || strings.HasPrefix(t, "OpenFile "+dir+string(filepath.Separator))
		verif.Assert(ok, "a file system object outside <out>/<name> is created: "+t)
	}
	if !stubIDValid {
		verif.Assert(err != nil, "an unusable package name is accepted")
		verif.Assert(len(osTrace) == 0, "something is created although the package name is unusable")
	}
	if err == nil {
		verif.Reach("success")
		verif.Assert(osAllOK, "success is reported although a step failed (a file is missing or incomplete)")
		want := []string{"errors.go", "types.go", "stack.go", "input.go", "lexer.go", "parser.go"}
		verif.Assert(len(osOpened) == len(want), "success is reported but not every file of the package was written")
		for _, w := range want {
			found := false
			for _, o := range osOpened {
				if o == filepath.Join(dir, w) {
					found = true
				}
			}
			verif.Assert(found, "success is reported but "+w+" was not written into <out>/<name>")
		}
	} else {
		verif.Reach("failure")
		verif.Assert(!osAllOK, "failure is reported although every step succeeded")
	}
}

// ---- C16: which names are usable package names ------------------------------------------------------

// The keywords and the predeclared identifiers of the Go specification (go1.24, the version of go.mod).
var goKeywords = []string{"break", "case", "chan", "const", "continue", "default", "defer", "else", "fallthrough", "for", "func", "go", "goto", "if", "import",
	"interface", "map", "package", "range", "return", "select", "struct", "switch", "type", "var"}
var goPredeclared = []string{"any", "bool", "byte", "comparable", "complex64", "complex128", "error", "float32", "float64", "int", "int8", "int16", "int32", "int64",
	"rune", "string", "uint", "uint8", "uint16", "uint32", "uint64", "uintptr", "true", "false", "iota", "nil", "append", "cap", "clear", "close", "complex", "copy",
	"delete", "imag", "len", "make", "max", "min", "new", "panic", "print", "println", "real", "recover"}
var usableNames = []string{"pkg", "calc", "x1", "_x", "x_", "Var", "anyx", "var1", "int9", "go2", "iff", "x_y", "lexer", "parser", "vars", "forx", "ifs"}
// "_" has the shape of an identifier but cannot name a package (the blank identifier)
var malformedNames = []string{"", "1x", "a-b", "a b", "a.b", "x/y", "9", "a+", "é-", "_"}

// stubMatchIdent stands for idRegex.MatchString (the regexp engine is outside the interpreter): the
// identifier shape `^[\p{L}_][\p{L}\p{Nd}_]*$` restricted to the ASCII names of this harness.
func stubMatchIdent(re any, s string) bool {
	if len(s) == 0 {
		return false
	}
	for i := 0; i < len(s); i++ {
		c := s[i]
		letter := c == '_' || (c >= 'a' && c <= 'z') || (c >= 'A' && c <= 'Z')
		digit := c >= '0' && c <= '9'
		if !(letter || (digit && i > 0)) {
			return false
		}
	}
	return true
}

// harnessC16Names: isIDValid accepts a name iff it has the shape of an identifier and is neither a keyword
// nor a predeclared identifier of Go; Generate creates nothing for a name it does not accept.
func harnessC16Names() {
	var all []string
	all = append(all, goKeywords...)
	all = append(all, goPredeclared...)
	nres := len(all)
	all = append(all, usableNames...)
	nuse := len(all)
	all = append(all, malformedNames...)
	i := verif.Pick("name", len(all))
	name := all[i]
	got := isIDValid(name)
	if i < nres {
		verif.Reach("reserved")
		verif.Assert(!got, "a keyword or predeclared identifier of Go is accepted as a package name: "+name)
	} else if i < nuse {
		verif.Reach("usable")
		verif.Assert(got, "a usable package name is rejected: "+name)
	} else {
		verif.Reach("malformed")
		verif.Assert(!got, "a text that cannot name a Go package is accepted as a package name: "+name)
	}
}
