//go:build verif

package golang

import (
	"strings"

	"github.com/gardenbed/charm/ui"

	"github.com/gardenbed/emerge/internal/ebnf/parser/spec"
	"github.com/gardenbed/emerge/internal/verif"
)

var c15Out string

func c15Itoa(n int) string {
	if n < 0 {
		return "-" + c15Itoa(-n)
	}
	if n < 10 {
		return string(rune('0' + n))
	}
	return c15Itoa(n/10) + string(rune('0'+n%10))
}

// c15Record writes down, in order, everything the templates are given (the bytes of the generated
// files are a function of this data and of the fixed template texts).
func c15Record(data any) {
	switch d := data.(type) {
	case *coreData:
		c15Out += "core " + d.Package + "\n"
	case *parserData:
		c15Out += "parser " + d.Package + "\n"
	case *lexerData:
		c15Out += "lexer " + d.Package + "\n"
		for _, t := range d.DFA.Transitions {
			c15Out += " from " + c15Itoa(t.From) + ":"
			for _, tr := range t.Trans {
				c15Out += " ->" + c15Itoa(tr.Next) + " on " + formatRunes(tr.Symbols) + ";"
			}
			c15Out += "\n"
		}
		for _, f := range d.DFA.FinalStates {
			c15Out += " final " + f.Terminal + ": " + formatInts(f.States) + "\n"
		}
	default:
		c15Out += "unknown template data\n"
	}
}

var c15Specs = []string{
	// a keyword, an identifier pattern that also captures it, two more patterns: several final states per token
	"grammar g;\nIF = \"if\";\nID = /[a-z]+/;\nNUM = /[0-9]+|x/;\nstart = IF ID NUM \"+\";\n",
	// patterns with several accepting states each
	"grammar h;\nAB = /ab?|b/;\nCD = /c|dd?/;\nstart = AB CD \";\" | ;\n",
	// two conflicting final states: generation fails in the lexer step
	"grammar k;\nTA = /y/;\nTB = /y|zz/;\nTC = /zz/;\nstart = TA TB TC;\n",
	// string tokens and a literal of the same kind and name length, declared in an order that is not the sorted one
	"grammar n;\nTC = \"s\";\nTA = \"t\";\nstart = TC TA \"TB\";\n",
	// the same with patterns
	"grammar o;\nZZ = /a/;\nMM = /b/;\nAA = /c/;\nstart = ZZ MM AA;\n",
	// a grammar with conflicts: generation fails in the parser step
	"grammar m;\nNUM = /[0-9]/;\nstart = start \"+\" start | start \"*\" start | NUM;\n",
}

func c15Generate(s *spec.Spec) string {
	c15Out = ""
	osTrace, osOpened = nil, nil
	err := Generate(ui.NewNop(), &Params{Path: "out", Spec: s})
	res := c15Out + strings.Join(osOpened, ",")
	if err != nil {
		res += " error: " + verif.ConcretizeString(err.Error())
	}
	return res
}

// harnessC15Generate: for each specification of a small corpus, Generate (operating system always
// succeeding, template engine replaced by a recorder of its data) is run once with every Go map iterated
// in sorted order and once with the iteration order of every Go map ranged over in emerge's own code left
// to the path: the recorded template data, the files opened and the diagnostics must be the same.
func harnessC15Generate() {
	osCalm = true
	text := c15Specs[verif.Pick("spec", len(c15Specs))]
	s, err := spec.Parse("f", strings.NewReader(text))
	verif.Assume(err == nil)
	first := c15Generate(s)
	verif.FreeMapOrder(true)
	s2, err := spec.Parse("f", strings.NewReader(text))
	verif.Assert(err == nil, "a specification is rejected under another map iteration order")
	if err != nil {
		return
	}
	second := c15Generate(s2)
	verif.FreeMapOrder(false)
	if !verif.Symbolic() {
		for i := 0; i < 100 && first == second; i++ {
			second = c15Generate(s2)
		}
	}
	verif.Reach("compared")
	if strings.Contains(first, " error: ") {
		verif.Reach("generation failed")
	} else {
		verif.Reach("generated")
	}
	verif.Assert(first == second, "what is generated depends on an order the text does not determine (hash map iteration, container traversal, sort input or goroutine completion): "+first+" <> "+second)
}
