//go:build verif

package golang

import (
	"bufio"
	"encoding/json"
	"fmt"
	"os"
	"strings"
	"testing"

	"github.com/gardenbed/charm/ui"

	"github.com/gardenbed/emerge/internal/ebnf/parser/spec"
)

// TestVerifEmit runs the real generator of the current tree on each job (specification text,
// output directory) and records what it did together with the token automaton the same
// specification yields (the reference the emitted tables are compared with).

type eJob struct {
	ID   int    `json:"id"`
	Text string `json:"text"`
	Dir  string `json:"dir"`
}

type eAuto struct {
	Start int     `json:"start"`
	Final []int   `json:"final"`
	Trans [][]int `json:"trans"`
}

type eOut struct {
	ID       int              `json:"id"`
	ParseErr string           `json:"parse_err,omitempty"`
	GenErr   string           `json:"gen_err,omitempty"`
	Panic    string           `json:"panic,omitempty"`
	Name     string           `json:"name,omitempty"`
	DFA      *eAuto           `json:"dfa,omitempty"`
	DFAErr   string           `json:"dfa_err,omitempty"`
	TermMap  map[string][]int `json:"term_map,omitempty"`
	Defs     []string         `json:"defs,omitempty"`
}

func emitJob(j eJob) (out eOut) {
	out.ID = j.ID
	defer func() {
		if r := recover(); r != nil {
			out.Panic = fmt.Sprint(r)
		}
	}()
	s, err := spec.Parse("f", strings.NewReader(j.Text))
	if err != nil {
		out.ParseErr = err.Error()
		return
	}
	out.Name = s.Name
	for _, d := range s.Definitions {
		out.Defs = append(out.Defs, string(d.Terminal))
	}
	d, tm, err := s.DFA()
	if err != nil {
		out.DFAErr = err.Error()
	} else {
		a := &eAuto{Start: int(d.Start)}
		for st := range d.Final.All() {
			a.Final = append(a.Final, int(st))
		}
		for tr := range d.Transitions() {
			a.Trans = append(a.Trans, []int{int(tr.State), int(tr.Symbol), int(tr.Next)})
		}
		out.DFA = a
		out.TermMap = map[string][]int{}
		for t, ss := range tm {
			for _, x := range ss {
				out.TermMap[string(t)] = append(out.TermMap[string(t)], int(x))
			}
		}
	}
	if err := Generate(ui.NewNop(), &Params{Path: j.Dir, Spec: s}); err != nil {
		out.GenErr = err.Error()
	}
	return
}

func TestVerifEmit(t *testing.T) {
	in, err := os.Open(os.Getenv("VERIF_JOBS"))
	if err != nil {
		t.Skip("no VERIF_JOBS")
	}
	defer in.Close()
	outf, err := os.Create(os.Getenv("VERIF_OUT"))
	if err != nil {
		t.Fatal(err)
	}
	defer outf.Close()
	w := bufio.NewWriter(outf)
	defer w.Flush()
	sc := bufio.NewScanner(in)
	sc.Buffer(make([]byte, 1<<20), 1<<26)
	for sc.Scan() {
		var j eJob
		if err := json.Unmarshal(sc.Bytes(), &j); err != nil {
			continue
		}
		b, _ := json.Marshal(emitJob(j))
		w.Write(b)
		w.WriteByte('\n')
	}
}
