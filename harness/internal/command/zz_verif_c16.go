//go:build verif

package command

import (
	"errors"
	"io"
	"os"
	"strings"

	"github.com/gardenbed/charm/ui"

	"github.com/gardenbed/emerge/internal/ebnf/parser/spec"
	"github.com/gardenbed/emerge/internal/generate/golang"
	"github.com/gardenbed/emerge/internal/verif"
)

type recUI struct {
	ui.UI
	infos  []string
	errors int
}

func (u *recUI) Infof(s ui.Style, format string, a ...interface{})  { u.infos = append(u.infos, format) }
func (u *recUI) Errorf(s ui.Style, format string, a ...interface{}) { u.errors++ }

var (
	errOpen  = errors.New("stub: cannot open")
	errParse = errors.New("stub: invalid specification")
	errGen   = errors.New("stub: generation failed")
	openOK   = true
)

func stubOpen(name string) (*os.File, error) {
	if verif.Pick("open", 2) == 1 {
		openOK = false
		return nil, errOpen
	}
	return nil, nil
}

func stubClose(f *os.File) error { return nil }

func stubRune() rune { return 'x' }

var c16Args = [][]string{{}, {"spec.grammar"}, {"-x", "dir/spec.grammar", "other"}, {"-only", "--flags"}}

// harnessC16Run: Command.Run announces success and returns nil iff the file could be opened, the
// specification was accepted and the package was generated; -name replaces the grammar's name, -out is
// the parent directory handed to the generator.
func harnessC16Run() {
	u := &recUI{UI: ui.NewNop()}
	c := &Command{UI: u}
	c.Out = []string{"/work", "rel/out"}[verif.Pick("out", 2)]
	c.Name = []string{"", "mypkg"}[verif.Pick("name", 2)]
	c.Debug = verif.Pick("debug", 2) == 1
	parseOK, genOK := true, true
	var got *golang.Params
	parsedAs := ""
	c.funcs.Parse = func(filename string, r io.Reader) (*spec.Spec, error) {
		parsedAs = filename
		if verif.Pick("parse", 2) == 1 {
			parseOK = false
			return nil, errParse
		}
		return &spec.Spec{Name: "fromfile"}, nil
	}
	c.funcs.Generate = func(_ ui.UI, p *golang.Params) error {
		got = p
		if verif.Pick("generate", 2) == 1 {
			genOK = false
			return errGen
		}
		return nil
	}
	args := c16Args[verif.Pick("args", len(c16Args))]
	err := c.Run(args)
	hasFile := false
	for _, a := range args {
		if !strings.HasPrefix(a, "-") {
			hasFile = true
		}
	}
	success := false
	for _, m := range u.infos {
		if strings.Contains(m, "Successful") {
			success = true
		}
	}
	verif.Reach("run returned")
	want := hasFile && openOK && parseOK && genOK
	verif.Assert((err == nil) == want, "Run's result does not say whether the specification was accepted and the package generated")
	verif.Assert(success == want, "success is announced iff everything succeeded")
	if !hasFile {
		verif.Assert(got == nil && parsedAs == "", "without an input file nothing may be parsed or generated")
	}
	if got != nil {
		verif.Assert(got.Path == c.Out, "-out is not the directory handed to the generator")
		verif.Assert(got.Debug == c.Debug, "-debug is not handed to the generator")
		if c.Name != "" {
			verif.Assert(got.Spec.Name == c.Name, "-name does not replace the grammar's name")
		} else {
			verif.Assert(got.Spec.Name == "fromfile", "without -name the grammar's own name must be used")
		}
	}
	if err != nil && hasFile {
		verif.Assert(errors.Is(err, errOpen) || errors.Is(err, errParse) || errors.Is(err, errGen), "the error returned is not the one that occurred")
	}
}
