//go:build verif

package parser

import (
	"fmt"
	"testing"

	"github.com/moorara/algo/grammar"
	"github.com/moorara/algo/parser/lr"
	"github.com/moorara/algo/parser/lr/lookahead"
)

// TestVerifDumpTable prints the LALR(1) table that the library constructs for the package's
// own grammar G and precedences: the reference the embedded ACTION/GOTO are compared with.
func TestVerifDumpTable(t *testing.T) {
	T, err := lookahead.BuildParsingTable(G, precedences)
	if err != nil {
		fmt.Printf("TABLE-ERROR %v\n", err)
		return
	}
	terms := append(append([]grammar.Terminal{}, terminals...), grammar.Endmarker)
	for _, s := range T.States {
		fmt.Printf("STATE %d\n", s)
		for _, a := range terms {
			action, err := T.ACTION(s, a)
			if err != nil {
				continue
			}
			switch action.Type {
			case lr.SHIFT:
				fmt.Printf("ACTION %d %q SHIFT %d\n", s, string(a), action.State)
			case lr.REDUCE:
				idx := -1
				for i, p := range productions {
					if p.Equal(action.Production) {
						idx = i
					}
				}
				fmt.Printf("ACTION %d %q REDUCE %d\n", s, string(a), idx)
			case lr.ACCEPT:
				fmt.Printf("ACTION %d %q ACCEPT 0\n", s, string(a))
			}
		}
		for _, A := range nonTerminals {
			if next, err := T.GOTO(s, A); err == nil {
				fmt.Printf("GOTO %d %q %d\n", s, string(A), next)
			}
		}
	}
	for i, l := range precedences {
		fmt.Printf("PREC %d %s", i, l.Associativity)
		for h := range l.Handles.All() {
			fmt.Printf(" [%s]", h.String())
		}
		fmt.Println()
	}
	for i, p := range productions {
		fmt.Printf("PROD %d %q", i, string(p.Head))
		for _, x := range p.Body {
			if x.IsTerminal() {
				fmt.Printf(" T:%q", x.Name())
			} else {
				fmt.Printf(" N:%q", x.Name())
			}
		}
		fmt.Println()
	}
}
