//go:build verif

package spec

import (
	"strings"

	"github.com/gardenbed/emerge/internal/ebnf/parser"
	"github.com/gardenbed/emerge/internal/verif"
)

// ---- the well-formedness conditions of the documentation, evaluated on the reference tree -----------

type wf struct {
	toks       []lexerToken
	tokenDecls map[string][]string // token name -> values declared ("s:<text>", "r:<pattern>")
	usedTokens map[string]bool
	usedLits   map[string]bool
	usedNTs    map[string]bool
	heads      map[string]bool
	badPredef  bool
	hints      []string // names the diagnostics of the present problems can be expected to mention
	levelsOf   map[string][]int // handle (terminal name or production text) -> directive indices
	nlevels    int
}

func (w *wf) lex(n *parser.VerifNode) string { return w.toks[n.Tok].lexeme }

func (w *wf) rhs(n *parser.VerifNode, text *string) {
	switch n.Prod {
	case 23:
		w.rhs(n.Kids[0], text)
		*text += " "
		w.rhs(n.Kids[1], text)
	case 24, 25, 26, 27:
		*text += []string{"(", "[", "{", "{{"}[n.Prod-24]
		w.rhs(n.Kids[1], text)
		*text += []string{")", "]", "}", "}}"}[n.Prod-24]
	case 28:
		w.rhs(n.Kids[0], text)
		*text += "|"
		w.rhs(n.Kids[2], text)
	case 29:
		w.rhs(n.Kids[0], text)
		*text += "|"
	case 30:
		name := w.lex(n.Kids[0].Kids[0])
		w.usedNTs[name] = true
		*text += name
	case 31:
		w.term(n.Kids[0], text)
	}
}

func (w *wf) term(n *parser.VerifNode, text *string) string {
	name := w.lex(n.Kids[0])
	if n.Prod == 33 {
		w.usedTokens[name] = true
		*text += name
		return "T:" + name
	}
	w.usedLits[name] = true
	*text += "\"" + name + "\""
	return "L:" + name
}

func (w *wf) rule(n *parser.VerifNode) string {
	head := w.lex(n.Kids[0].Kids[0].Kids[0])
	w.heads[head] = true
	text := head + "="
	if n.Prod == 20 {
		w.rhs(n.Kids[2], &text)
	}
	return text
}

func (w *wf) handles(n *parser.VerifNode, level int) {
	item := n.Kids[len(n.Kids)-1]
	if n.Prod == 15 || n.Prod == 16 {
		w.handles(n.Kids[0], level)
	}
	var key string
	switch n.Prod {
	case 15, 17:
		var dummy string
		key = w.term(item, &dummy)
		key = "term " + key[2:]
	case 16, 18:
		key = "rule " + w.rule(item.Kids[1])
	}
	for _, l := range w.levelsOf[key] {
		if l == level {
			return
		}
	}
	w.levelsOf[key] = append(w.levelsOf[key], level)
}

func (w *wf) decls(n *parser.VerifNode) {
	if n.Prod == 3 {
		return
	}
	w.decls(n.Kids[0])
	d := n.Kids[1]
	body := d.Kids[0]
	switch d.Prod {
	case 4:
		name := w.lex(body.Kids[0])
		val := w.lex(body.Kids[2])
		switch body.Prod {
		case 9:
			w.tokenDecls[name] = append(w.tokenDecls[name], "s:"+val)
		case 10:
			w.tokenDecls[name] = append(w.tokenDecls[name], "r:"+val)
		default:
			if pat, ok := parser.Predefs[val]; ok {
				w.tokenDecls[name] = append(w.tokenDecls[name], "r:"+pat)
			} else {
				w.badPredef = true
			}
		}
	case 5:
		w.handles(body.Kids[1], w.nlevels)
		w.nlevels++
	case 6:
		w.rule(body)
	}
}

// problems returns which of the documented defects are present.
func (w *wf) problems() map[string]bool {
	p := map[string]bool{}
	for t := range w.usedTokens {
		if len(w.tokenDecls[t]) == 0 {
			p["undefined token"] = true
			w.hints = append(w.hints, t)
		}
	}
	values := map[string]int{}
	for _, ds := range w.tokenDecls {
		if len(ds) > 1 {
			p["token defined more than once"] = true
		} else if len(ds) == 1 {
			values[ds[0][2:]]++
			if ds[0] == "r:(" {
				p["invalid pattern"] = true
			}
		}
	}
	for l := range w.usedLits {
		values[l]++
	}
	for _, n := range values {
		if n > 1 {
			p["two terminals with the same value"] = true
		}
	}
	if w.badPredef {
		p["unknown predefined name"] = true
	}
	for nt := range w.usedNTs {
		if !w.heads[nt] {
			p["non-terminal without production"] = true
		}
	}
	if !w.heads["start"] {
		p["no start rule"] = true
	}
	for _, ls := range w.levelsOf {
		if len(ls) > 1 {
			p["handle in two precedence levels"] = true
		}
	}
	return p
}

var c07Messages = map[string]string{
	"undefined token":                   "no definition for terminal",
	"token defined more than once":      "multiple definitions for terminal",
	"two terminals with the same value": "multiple definitions with the same value",
	"unknown predefined name":           "invalid predefined regex",
	"invalid pattern":                   "invalid regular expression",
	"no start rule":                     "start symbol",
	"handle in two precedence levels":   "appeared in more than one precedence level",
}

// harnessC07WellFormed: `grammar g ;` followed by every sequence of up to specWfK tokens (kinds
// symbolic, lexemes from small pools): emerge (spec.Parse, then the token automaton) rejects the
// specification iff one of the documented defects is present; a diagnostic that belongs to one of the
// documented defects appears only if that defect is present; an accepted specification has exactly one
// definition per terminal.
func harnessC07WellFormed() {
	variant := verif.Pick("variant", 5)
	k := verif.Len("k", 0, specWfK)
	toks, _ := parser.VerifPoolTokens(k, variant)
	parser.VerifSetLexer(toks)
	s, err := Parse("f", nil)
	tree, _ := parser.VerifRefParse(toks)
	if tree == nil {
		verif.Reach("syntax error")
		verif.Assert(err != nil, "a text that is not a specification is accepted")
		return
	}
	lt := make([]lexerToken, len(toks))
	for i := range toks {
		lt[i] = lexerToken{kind: verif.ConcretizeString(string(toks[i].Terminal)), lexeme: verif.ConcretizeString(toks[i].Lexeme)}
	}
	w := &wf{toks: lt, tokenDecls: map[string][]string{}, usedTokens: map[string]bool{}, usedLits: map[string]bool{}, usedNTs: map[string]bool{},
		heads: map[string]bool{}, levelsOf: map[string][]int{}}
	w.decls(tree.Kids[1])
	probs := w.problems()
	msg := ""
	if err != nil {
		msg = err.Error()
	} else {
		_, _, derr := s.DFA()
		if derr != nil {
			err = derr
			msg = derr.Error()
		}
	}
	if len(probs) == 0 {
		verif.Reach("well-formed")
		verif.Assert(err == nil, "a well-formed specification is rejected: "+msg)
		if err != nil {
			return
		}
		// every terminal of the grammar has exactly one definition
		for a := range s.Grammar.Terminals.All() {
			n := 0
			for _, d := range s.Definitions {
				if d.Terminal == a {
					n++
				}
			}
			verif.Assert(n == 1, "an accepted specification has a terminal without exactly one definition")
		}
		return
	}
	verif.Reach("ill-formed")
	for p := range probs {
		verif.Reach("defect: " + p)
	}
	verif.Assert(err != nil, "an ill-formed specification is accepted ("+firstKey(probs)+")")
	if err == nil {
		return
	}
	named := false
	for prob, sub := range c07Messages {
		if strings.Contains(msg, sub) {
			verif.Assert(probs[prob], "the diagnostics name a problem that is not present: "+prob)
			named = true
		}
	}
	// a reworded diagnostic still names a present problem if it mentions what the problem is about
	for name, ds := range w.tokenDecls {
		if len(ds) > 1 && strings.Contains(msg, name) {
			named = true
		}
	}
	for _, h := range w.hints {
		if strings.Contains(msg, h) {
			named = true
		}
	}
	if (probs["no start rule"] && strings.Contains(msg, "start")) || (probs["unknown predefined name"] && strings.Contains(msg, "$BOGUS")) {
		named = true
	}
	if !probs["non-terminal without production"] || len(probs) > 1 {
		verif.Assert(named || probs["non-terminal without production"], "the diagnostics name none of the problems that are present: "+verif.ConcretizeString(msg))
	}
}

func firstKey(m map[string]bool) string {
	best := ""
	for k := range m {
		if best == "" || k < best {
			best = k
		}
	}
	return best
}
