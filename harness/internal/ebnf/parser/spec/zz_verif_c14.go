//go:build verif

package spec

import (
	"strings"

	"github.com/gardenbed/emerge/internal/ebnf/parser"
	"github.com/gardenbed/emerge/internal/verif"
)

// harnessSpecProbe: engine probe - the whole spec.Parse on a concrete specification.
func harnessSpecProbe() {
	s, err := Parse("f", strings.NewReader("grammar g;\nID = /[a-z]+/;\n@left \"+\";\nstart = start \"+\" start | [ ID ] { \"x\" } | ;\n"))
	if err != nil {
		verif.Reach("error " + err.Error())
		return
	}
	verif.Reach("ok " + s.Name)
}

// harnessC14SpecTokens: every token sequence of up to specK tokens (kinds symbolic) through the real
// spec.Parse with all its semantic actions, symbol table and verification: it returns a specification
// or an error, never panics and never succeeds with a nil result.
func harnessC14SpecTokens() {
	k := verif.Len("k", 0, specK)
	toks := parser.VerifSymTokens(k)
	parser.VerifSetLexer(toks)
	s, err := Parse("f", nil)
	if err != nil {
		verif.Assert(len(err.Error()) > 0, "an error without a description")
		verif.Reach("error")
		return
	}
	verif.Reach("specification")
	verif.Assert(s != nil && s.Grammar != nil, "success with a nil result")
}
