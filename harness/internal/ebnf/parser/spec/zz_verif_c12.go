//go:build verif

package spec

import (
	"github.com/moorara/algo/grammar"
	"github.com/moorara/algo/parser/lr"

	"github.com/gardenbed/emerge/internal/ebnf/parser"
	"github.com/gardenbed/emerge/internal/verif"
)

// ---- what the directives of the source say, read off the reference derivation tree ----------------

type refLevel struct {
	assoc     lr.Associativity
	terminals []string   // listed terminals, in order
	rules     []refRuleH // listed rule handles, in order
}

type refRuleH struct {
	head string
	alts int  // number of top-level alternatives of the body (an empty body or alternative counts)
	flat bool // every alternative is a plain sequence of symbols (so alternatives can be compared by name)
	seqs [][]string
}

type dirReader struct {
	toks []lexerToken
}

type lexerToken struct{ kind, lexeme string }

func lexOf(toks []lexerToken, n *parser.VerifNode) string { return toks[n.Tok].lexeme }

// alternatives flattens rhs -> rhs "|" rhs / rhs "|" at the top level.
func alternatives(n *parser.VerifNode, out *[]*parser.VerifNode, empties *int) {
	switch n.Prod {
	case 28:
		alternatives(n.Kids[0], out, empties)
		alternatives(n.Kids[2], out, empties)
	case 29:
		alternatives(n.Kids[0], out, empties)
		*empties = *empties + 1
	default:
		*out = append(*out, n)
	}
}

// plainSeq returns the symbol names of an alternative that is a plain juxtaposition of symbols.
func plainSeq(toks []lexerToken, n *parser.VerifNode, out *[]string) bool {
	switch n.Prod {
	case 23:
		return plainSeq(toks, n.Kids[0], out) && plainSeq(toks, n.Kids[1], out)
	case 30: // rhs -> nonterm -> IDENT
		*out = append(*out, "N:"+lexOf(toks, n.Kids[0].Kids[0]))
		return true
	case 31: // rhs -> term -> TOKEN | STRING
		*out = append(*out, "T:"+lexOf(toks, n.Kids[0].Kids[0]))
		return true
	}
	return false
}

func readRule(toks []lexerToken, rule *parser.VerifNode) refRuleH {
	h := refRuleH{head: lexOf(toks, rule.Kids[0].Kids[0].Kids[0]), flat: true}
	if rule.Prod == 21 {
		h.alts = 1
		h.seqs = [][]string{{}}
		return h
	}
	var alts []*parser.VerifNode
	empties := 0
	alternatives(rule.Kids[2], &alts, &empties)
	for _, a := range alts {
		var seq []string
		if plainSeq(toks, a, &seq) {
			h.seqs = append(h.seqs, seq)
		} else {
			h.flat = false
		}
	}
	if empties > 0 {
		h.seqs = append(h.seqs, []string{})
	}
	h.alts = len(alts)
	if empties > 0 {
		h.alts++
	}
	return h
}

func readHandles(toks []lexerToken, n *parser.VerifNode, lv *refLevel) {
	item := n.Kids[len(n.Kids)-1]
	if n.Prod == 15 || n.Prod == 16 {
		readHandles(toks, n.Kids[0], lv)
	}
	switch n.Prod {
	case 15, 17:
		lv.terminals = append(lv.terminals, lexOf(toks, item.Kids[0]))
	case 16, 18:
		lv.rules = append(lv.rules, readRule(toks, item.Kids[1]))
	}
}

func readDecls(toks []lexerToken, n *parser.VerifNode, out *[]refLevel) {
	if n.Prod == 3 {
		return
	}
	readDecls(toks, n.Kids[0], out)
	d := n.Kids[1]
	if d.Prod == 5 {
		dir := d.Kids[0]
		lv := refLevel{assoc: lr.LEFT}
		if dir.Prod == 13 {
			lv.assoc = lr.RIGHT
		} else if dir.Prod == 14 {
			lv.assoc = lr.NONE
		}
		readHandles(toks, dir.Kids[1], &lv)
		*out = append(*out, lv)
	}
}

func distinct(seqs [][]string) int {
	n := 0
	for i := range seqs {
		dup := false
		for j := 0; j < i; j++ {
			if len(seqs[i]) == len(seqs[j]) {
				same := true
				for k := range seqs[i] {
					if seqs[i][k] != seqs[j][k] {
						same = false
					}
				}
				if same {
					dup = true
				}
			}
		}
		if !dup {
			n++
		}
	}
	return n
}

// harnessC12Levels: for every sequence of up to specDirK tokens appended to a small fixed
// specification, if emerge accepts the result then the precedence levels it records are exactly the
// directives of the source: as many levels, in source order, each with the associativity written,
// exactly the terminals listed, and for every rule handle the productions of that rule (one per
// alternative), each of which is a production of the derived grammar.
func harnessC12Levels() {
	variant := verif.Pick("variant", 4)
	k := verif.Len("k", 0, specDirK)
	if variant >= 2 {
		verif.Assume(k < specDirK) // the openings with an open directive need one token less for the same shapes
	}
	toks, _ := parser.VerifDirectiveTokens(k, variant)
	parser.VerifSetLexer(toks)
	s, err := Parse("f", nil)
	tree, _ := parser.VerifRefParse(toks)
	if tree == nil || err != nil {
		verif.Reach("not accepted")
		return
	}
	verif.Reach("accepted")
	// on an accepted path every token kind is fixed by the path; make the lexemes concrete
	lt := make([]lexerToken, len(toks))
	for i := range toks {
		lt[i] = lexerToken{kind: verif.ConcretizeString(string(toks[i].Terminal)), lexeme: verif.ConcretizeString(toks[i].Lexeme)}
	}
	var want []refLevel
	readDecls(lt, tree.Kids[1], &want)
	verif.Assert(len(s.Precedences) == len(want), "the number of recorded precedence levels is not the number of directives")
	if len(s.Precedences) != len(want) {
		return
	}
	if len(want) > 0 {
		verif.Reach("with directives")
	}
	for i, lv := range want {
		got := s.Precedences[i]
		verif.Assert(got.Associativity == lv.assoc, "level "+itoa12(i)+": recorded associativity is not the one written")
		var gotTerms []string
		prodsByHead := map[string]int{}
		for h := range got.Handles.All() {
			if h.IsTerminal() {
				gotTerms = append(gotTerms, string(*h.Terminal))
			} else if h.IsProduction() {
				prodsByHead[string(h.Production.Head)]++
				verif.Assert(hasProduction(s, h.Production), "level "+itoa12(i)+": a handle production is not a production of the derived grammar")
			} else {
				verif.Fail("level " + itoa12(i) + ": a handle that is neither a terminal nor a production")
			}
		}
		// exactly the listed terminals (as a set)
		for _, t := range lv.terminals {
			found := false
			for _, g := range gotTerms {
				if g == t {
					found = true
				}
			}
			verif.Assert(found, "level "+itoa12(i)+": the listed terminal "+t+" is not recorded")
		}
		for _, g := range gotTerms {
			found := false
			for _, t := range lv.terminals {
				if g == t {
					found = true
				}
			}
			verif.Assert(found, "level "+itoa12(i)+": a terminal is recorded that the directive does not list: "+g)
		}
		// rule handles: one production per alternative, all with the rule's head
		wantByHead := map[string]int{}
		exact := true
		var all [][]string
		for _, r := range lv.rules {
			if !r.flat {
				exact = false
			}
			all = append(all, r.seqs...)
			wantByHead[r.head] += r.alts
		}
		total := 0
		for _, n := range prodsByHead {
			total += n
		}
		for h := range prodsByHead {
			verif.Assert(wantByHead[h] > 0, "level "+itoa12(i)+": a production of rule "+h+" is recorded although no handle of that rule is listed")
		}
		if len(lv.rules) > 0 {
			verif.Reach("with rule handles")
			verif.Assert(total >= 1, "level "+itoa12(i)+": a rule handle contributes no production")
			sum := 0
			for _, n := range wantByHead {
				sum += n
			}
			verif.Assert(total <= sum, "level "+itoa12(i)+": more productions are recorded than the rule handles have alternatives")
			if exact {
				verif.Assert(total == distinct(all), "level "+itoa12(i)+": the rule handles do not contribute exactly one production per alternative")
			}
		} else {
			verif.Assert(total == 0, "level "+itoa12(i)+": productions are recorded although the directive lists no rule handle")
		}
	}
}

func hasProduction(s *Spec, p *grammar.Production) bool {
	for q := range s.Grammar.Productions.All() {
		if q.Equal(p) {
			return true
		}
	}
	return false
}

func itoa12(n int) string { return string(rune('0' + n%10)) }
