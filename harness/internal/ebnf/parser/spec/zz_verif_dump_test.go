//go:build verif

package spec

import (
	"bufio"
	"encoding/json"
	"fmt"
	"os"
	"sort"
	"strings"
	"testing"

	auto "github.com/moorara/algo/automata"
	"github.com/moorara/algo/grammar"
	"github.com/moorara/algo/parser/lr"

	regexast "github.com/gardenbed/emerge/internal/regex/parser/ast"
	"github.com/gardenbed/emerge/internal/regex/parser/nfa"
)

// TestVerifDump is the Layer-T dump driver: it runs the real pipeline of the current tree on
// each job of the file named by VERIF_JOBS and writes what it produced to VERIF_OUT (JSON
// lines).  It decides nothing; the solver-side checks consume its output.

type vJob struct {
	ID   int    `json:"id"`
	Op   string `json:"op"`
	Text string `json:"text"`
	Word []int  `json:"word"`
}

type vAuto struct {
	Start int     `json:"start"`
	Final []int   `json:"final"`
	Trans [][]int `json:"trans"` // DFA: [state, symbol, next]; NFA: [state, symbol, next...]
}

type vSym struct {
	T    bool   `json:"t"`
	Name string `json:"name"`
}

type vProd struct {
	Head string `json:"head"`
	Body []vSym `json:"body"`
}

type vDef struct {
	Terminal string `json:"terminal"`
	Value    string `json:"value"`
	IsRegex  bool   `json:"is_regex"`
}

type vLevel struct {
	Assoc   string   `json:"assoc"`
	Handles []string `json:"handles"`
}

type vSpec struct {
	Name         string   `json:"name"`
	Start        string   `json:"start"`
	Terminals    []string `json:"terminals"`
	NonTerminals []string `json:"nonterminals"`
	Prods        []vProd  `json:"prods"`
	Defs         []vDef   `json:"defs"`
	Levels       []vLevel `json:"levels"`
}

type vAction struct {
	State int    `json:"s"`
	Term  string `json:"a"`
	Type  string `json:"type"`
	Arg   int    `json:"arg"`
}

type vGoto struct {
	State int    `json:"s"`
	NT    string `json:"A"`
	Next  int    `json:"next"`
}

type vTable struct {
	States  []int     `json:"states"`
	Actions []vAction `json:"actions"`
	Gotos   []vGoto   `json:"gotos"`
	Prods   []vProd   `json:"prods"`
}

type vOut struct {
	ID      int               `json:"id"`
	Err     string            `json:"err,omitempty"`
	Panic   string            `json:"panic,omitempty"`
	Stages  map[string]*vAuto `json:"stages,omitempty"`
	Errs    map[string]string `json:"errs,omitempty"`
	Spec    *vSpec            `json:"spec,omitempty"`
	TermMap map[string][]int  `json:"term_map,omitempty"`
	Accept  map[string]string `json:"accept,omitempty"`
	Table   *vTable           `json:"table,omitempty"`
}

func dumpDFA(d *auto.DFA) *vAuto {
	if d == nil {
		return nil
	}
	a := &vAuto{Start: int(d.Start)}
	for s := range d.Final.All() {
		a.Final = append(a.Final, int(s))
	}
	for tr := range d.Transitions() {
		a.Trans = append(a.Trans, []int{int(tr.State), int(tr.Symbol), int(tr.Next)})
	}
	return a
}

func dumpNFA(n *auto.NFA) *vAuto {
	if n == nil {
		return nil
	}
	a := &vAuto{Start: int(n.Start)}
	for s := range n.Final.All() {
		a.Final = append(a.Final, int(s))
	}
	for tr := range n.Transitions() {
		row := []int{int(tr.State), int(tr.Symbol)}
		for _, x := range tr.Next {
			row = append(row, int(x))
		}
		a.Trans = append(a.Trans, row)
	}
	return a
}

func dumpProd(p *grammar.Production) vProd {
	vp := vProd{Head: string(p.Head), Body: []vSym{}}
	for _, x := range p.Body {
		vp.Body = append(vp.Body, vSym{T: x.IsTerminal(), Name: x.Name()})
	}
	return vp
}

func dumpSpec(s *Spec) *vSpec {
	vs := &vSpec{Name: s.Name, Start: string(s.Grammar.Start)}
	for a := range s.Grammar.Terminals.All() {
		vs.Terminals = append(vs.Terminals, string(a))
	}
	sort.Strings(vs.Terminals)
	for A := range s.Grammar.NonTerminals.All() {
		vs.NonTerminals = append(vs.NonTerminals, string(A))
	}
	sort.Strings(vs.NonTerminals)
	for _, p := range s.Productions() {
		vs.Prods = append(vs.Prods, dumpProd(p))
	}
	for _, d := range s.Definitions {
		vs.Defs = append(vs.Defs, vDef{Terminal: string(d.Terminal), Value: d.Value, IsRegex: d.IsRegex})
	}
	for _, l := range s.Precedences {
		vl := vLevel{Assoc: l.Associativity.String()}
		for h := range l.Handles.All() {
			vl.Handles = append(vl.Handles, h.String())
		}
		vs.Levels = append(vs.Levels, vl)
	}
	return vs
}

func runJob(j vJob) (out vOut) {
	out.ID = j.ID
	defer func() {
		if r := recover(); r != nil {
			out.Panic = fmt.Sprint(r)
		}
	}()
	switch j.Op {
	case "regex":
		out.Stages = map[string]*vAuto{}
		out.Errs = map[string]string{}
		func() {
			defer func() {
				if r := recover(); r != nil {
					out.Errs["nfa_panic"] = fmt.Sprint(r)
				}
			}()
			n, err := nfa.Parse(j.Text)
			if err != nil {
				out.Errs["nfa"] = err.Error()
				return
			}
			out.Stages["nfa"] = dumpNFA(n)
			d1 := n.ToDFA()
			out.Stages["todfa"] = dumpDFA(d1)
			d2 := d1.Minimize()
			out.Stages["min"] = dumpDFA(d2)
			d3 := d2.EliminateDeadStates()
			out.Stages["elim"] = dumpDFA(d3)
			out.Stages["reindex"] = dumpDFA(d3.ReindexStates())
			d, err := regexToDFA(j.Text)
			if err != nil {
				out.Errs["regexToDFA"] = err.Error()
			} else {
				out.Stages["regexToDFA"] = dumpDFA(d)
			}
		}()
		func() {
			defer func() {
				if r := recover(); r != nil {
					out.Errs["ast_panic"] = fmt.Sprint(r)
				}
			}()
			a, err := regexast.Parse(j.Text)
			if err != nil {
				out.Errs["ast"] = err.Error()
				return
			}
			out.Stages["ast"] = dumpDFA(a.ToDFA())
		}()
	case "accept":
		// replay of a witness word against the real automata of both construction routes
		out.Accept = map[string]string{}
		word := make(auto.String, len(j.Word))
		for i, c := range j.Word {
			word[i] = auto.Symbol(c)
		}
		func() {
			defer func() {
				if r := recover(); r != nil {
					out.Accept["nfa_route"] = "panic: " + fmt.Sprint(r)
				}
			}()
			d, err := regexToDFA(j.Text)
			if err != nil {
				out.Accept["nfa_route"] = "error: " + err.Error()
				return
			}
			out.Accept["nfa_route"] = fmt.Sprint(d.Accept(word))
		}()
		func() {
			defer func() {
				if r := recover(); r != nil {
					out.Accept["ast_route"] = "panic: " + fmt.Sprint(r)
				}
			}()
			a, err := regexast.Parse(j.Text)
			if err != nil {
				out.Accept["ast_route"] = "error: " + err.Error()
				return
			}
			out.Accept["ast_route"] = fmt.Sprint(a.ToDFA().Accept(word))
		}()
	case "scan":
		// replay of a witness word against the combined scanner automaton of a specification
		out.Accept = map[string]string{}
		s, err := Parse("f", strings.NewReader(j.Text))
		if err != nil {
			out.Err = err.Error()
			return
		}
		d, tm, err := s.DFA()
		if err != nil {
			out.Accept["dfa_error"] = err.Error()
			return
		}
		cur := d.Start
		for _, c := range j.Word {
			cur = d.Next(cur, auto.Symbol(c))
			if cur == -1 {
				break
			}
		}
		out.Accept["state"] = fmt.Sprint(int(cur))
		out.Accept["final"] = fmt.Sprint(cur != -1 && d.Final.Contains(cur))
		for a, ss := range tm {
			for _, x := range ss {
				if x == cur {
					out.Accept["owner"] = string(a)
				}
			}
		}
	case "spec", "dfa", "lalr":
		s, err := Parse("f", strings.NewReader(j.Text))
		if err != nil {
			out.Err = err.Error()
			return
		}
		if s == nil {
			out.Err = "<nil spec without error>"
			return
		}
		out.Spec = dumpSpec(s)
		if j.Op == "dfa" {
			d, tm, err := s.DFA()
			if err != nil {
				out.Errs = map[string]string{"dfa": err.Error()}
				return
			}
			out.Stages = map[string]*vAuto{"combined": dumpDFA(d)}
			out.TermMap = map[string][]int{}
			for a, ss := range tm {
				for _, x := range ss {
					out.TermMap[string(a)] = append(out.TermMap[string(a)], int(x))
				}
			}
		}
		if j.Op == "lalr" {
			T, err := s.LALRParsingTable()
			if err != nil {
				out.Errs = map[string]string{"lalr": err.Error()}
				return
			}
			vt := &vTable{}
			prods := s.Productions()
			// the augmented start production is not part of the user's grammar: list the table's own
			terms := []grammar.Terminal{}
			for a := range s.Grammar.Terminals.All() {
				terms = append(terms, a)
			}
			terms = append(terms, grammar.Endmarker)
			nts := []grammar.NonTerminal{}
			for A := range s.Grammar.NonTerminals.All() {
				nts = append(nts, A)
			}
			var extra []*grammar.Production
			idx := func(p *grammar.Production) int {
				for i, q := range prods {
					if q.Equal(p) {
						return i
					}
				}
				for i, q := range extra {
					if q.Equal(p) {
						return len(prods) + i
					}
				}
				extra = append(extra, p)
				return len(prods) + len(extra) - 1
			}
			for _, st := range T.States {
				vt.States = append(vt.States, int(st))
				for _, a := range terms {
					act, err := T.ACTION(st, a)
					if err != nil {
						continue
					}
					switch act.Type {
					case lr.SHIFT:
						vt.Actions = append(vt.Actions, vAction{int(st), string(a), "SHIFT", int(act.State)})
					case lr.REDUCE:
						vt.Actions = append(vt.Actions, vAction{int(st), string(a), "REDUCE", idx(act.Production)})
					case lr.ACCEPT:
						vt.Actions = append(vt.Actions, vAction{int(st), string(a), "ACCEPT", 0})
					}
				}
				for _, A := range nts {
					if next, err := T.GOTO(st, A); err == nil {
						vt.Gotos = append(vt.Gotos, vGoto{int(st), string(A), int(next)})
					}
				}
			}
			for _, p := range prods {
				vt.Prods = append(vt.Prods, dumpProd(p))
			}
			for _, p := range extra {
				vt.Prods = append(vt.Prods, dumpProd(p))
			}
			out.Table = vt
		}
	default:
		out.Err = "unknown op " + j.Op
	}
	return
}

func TestVerifDump(t *testing.T) {
	in, err := os.Open(os.Getenv("VERIF_JOBS"))
	if err != nil {
		t.Skip("no VERIF_JOBS")
	}
	defer in.Close()
	outf, err := os.Create(os.Getenv("VERIF_OUT"))
	if err != nil {
		t.Fatal(err)
	}
	defer outf.Close()
	w := bufio.NewWriter(outf)
	defer w.Flush()
	sc := bufio.NewScanner(in)
	sc.Buffer(make([]byte, 1<<20), 1<<26)
	for sc.Scan() {
		var j vJob
		if err := json.Unmarshal(sc.Bytes(), &j); err != nil {
			continue
		}
		b, _ := json.Marshal(runJob(j))
		w.Write(b)
		w.WriteByte('\n')
	}
}
