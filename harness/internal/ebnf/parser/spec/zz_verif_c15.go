//go:build verif

package spec

import (
	"github.com/gardenbed/emerge/internal/ebnf/parser"
	"github.com/gardenbed/emerge/internal/verif"
)

// c15Outcome is everything a run of the front end hands on: the diagnostics, or the specification
// (name, productions, definitions, precedence levels) and the scanner automaton's final-state lists in
// the order they are printed into the generated lexer (or the automaton's diagnostics).
func c15Outcome(rejected *bool) string {
	s, err := Parse("f", nil)
	*rejected = err != nil
	if err != nil {
		return "error: " + verif.ConcretizeString(err.Error())
	}
	out := c17Dump(s)
	for _, lv := range s.Precedences {
		out += "level " + verif.ConcretizeString(lv.String()) + ";"
	}
	_, termMap, derr := s.DFA()
	if derr != nil {
		return out + " automaton error: " + verif.ConcretizeString(derr.Error())
	}
	for _, d := range s.Definitions {
		out += string(d.Terminal) + "->"
		for _, f := range termMap[d.Terminal] {
			out += itoa15(int(f)) + ","
		}
		out += ";"
	}
	return out
}

func itoa15(n int) string {
	if n < 0 {
		return "-" + itoa15(-n)
	}
	if n < 10 {
		return string(rune('0' + n))
	}
	return itoa15(n/10) + string(rune('0'+n%10))
}

// harnessC15Order: one of the fixed openings followed by every sequence of up to specOrdK tokens
// (specOrdK2 for the two openings made for this property).  The
// front end is run once with every Go map iterated in sorted order and once with the iteration order of
// every Go map that emerge's own code ranges over left to the path (each permutation is explored): the
// diagnostics, their order, the specification and the final-state lists must be the same.
func harnessC15Order() {
	variant := verif.Pick("variant", 8)
	k := verif.Len("k", 0, specOrdK2)
	if variant < 5 {
		verif.Assume(k <= specOrdK)
	}
	toks, _ := parser.VerifPoolTokens(k, variant)
	tree, _ := parser.VerifRefParse(toks)
	if tree == nil {
		verif.Reach("syntax error")
		return
	}
	parser.VerifSetLexer(toks)
	var rej1, rej2 bool
	first := c15Outcome(&rej1)
	parser.VerifSetLexer(toks)
	verif.FreeMapOrder(true)
	second := c15Outcome(&rej2)
	verif.FreeMapOrder(false)
	if !verif.Symbolic() {
		// native replay: the Go runtime randomises the order by itself; repeat and compare
		for i := 0; i < 300 && first == second; i++ {
			parser.VerifSetLexer(toks)
			second = c15Outcome(&rej2)
		}
	}
	verif.Reach("compared")
	verif.Assert(rej1 == rej2, "acceptance depends on an order the text does not determine")
	if rej1 {
		verif.Reach("rejected")
	} else {
		verif.Reach("accepted")
	}
	verif.Assert(first == second, "the outcome depends on an order the text does not determine (hash map iteration, container traversal, sort input or goroutine completion): "+first+" <> "+second)
}
