//go:build verif

package spec

import (
	"strings"

	"github.com/moorara/algo/grammar"

	"github.com/gardenbed/emerge/internal/verif"
)

func c17Data(k int) Strings {
	a, b, c := grammar.Terminal("a"), grammar.Terminal("b"), grammar.NonTerminal("c")
	switch k {
	case 0:
		return Strings{{a, b}, {c}}
	case 1:
		return Strings{{b}, {a, c, a}}
	case 2:
		return Strings{{c, c}}
	}
	return Strings{{a}}
}

// harnessC17Hash: two goroutines hash two different lists of grammar strings; under every schedule
// with at most the configured number of context switches each result equals the result computed in
// isolation, and a result does not depend on what was hashed before.
func harnessC17Hash() {
	x, y := verif.Pick("x", 2), 2+verif.Pick("y", 2)
	ex, ey := hashStrings(c17Data(x)), hashStrings(c17Data(y))
	verif.Assert(hashStrings(c17Data(x)) == ex, "a hash depends on what was hashed before")
	var rx, ry uint64
	verif.Go(func() { rx = hashStrings(c17Data(x)) })
	verif.Go(func() { ry = hashStrings(c17Data(y)) })
	verif.Wait()
	verif.Reach("both finished")
	verif.Assert(rx == ex, "concurrent use changes the hash of a list of grammar strings (first goroutine)")
	verif.Assert(ry == ey, "concurrent use changes the hash of a list of grammar strings (second goroutine)")
}

func c17Spec(k int) string {
	switch k {
	case 0:
		return "grammar g;\nstart = [ \"a\" ] { \"b\" \"c\" } ( \"a\" | \"b\" );\n"
	case 1:
		return "grammar h;\nID = /[a-z]+/;\nstart = {{ ID }} [ \"x\" ID ] | ;\n"
	}
	return "grammar k;\nstart = \"a\" start | ;\n"
}

func c17Dump(s *Spec) string {
	out := s.Name + ";"
	for _, p := range s.Productions() {
		out += p.String() + ";"
	}
	for _, d := range s.Definitions {
		out += string(d.Terminal) + "=" + d.Value + ";"
	}
	return out
}

// harnessC17Parse: two specifications parsed on two goroutines give what each gives alone, and a
// specification parsed after another gives what it gives alone.
func harnessC17Parse() {
	x, y := verif.Pick("x", 2), 1+verif.Pick("y", 2)
	sx, err := Parse("f", strings.NewReader(c17Spec(x)))
	verif.Assume(err == nil)
	sy, err := Parse("f", strings.NewReader(c17Spec(y)))
	verif.Assume(err == nil)
	ex, ey := c17Dump(sx), c17Dump(sy)
	again, err := Parse("f", strings.NewReader(c17Spec(x)))
	verif.Assert(err == nil && c17Dump(again) == ex, "the outcome of processing a specification depends on what was processed before")
	var rx, ry string
	verif.Go(func() {
		s, err := Parse("f", strings.NewReader(c17Spec(x)))
		if err == nil {
			rx = c17Dump(s)
		}
	})
	verif.Go(func() {
		s, err := Parse("f", strings.NewReader(c17Spec(y)))
		if err == nil {
			ry = c17Dump(s)
		}
	})
	verif.Wait()
	verif.Reach("both finished")
	verif.Assert(rx == ex, "processing a specification concurrently with another changes its outcome (first goroutine)")
	verif.Assert(ry == ey, "processing a specification concurrently with another changes its outcome (second goroutine)")
}

// c17Pool: accepted and rejected specifications (an unknown predefined name on a token no rule uses, the
// same on a token that is used, an undefined token, a duplicate definition): rejections leave traces in
// other places than acceptances do.
var c17Pool = []string{
	"grammar g;\nstart = [ \"a\" ] { \"b\" \"c\" } ( \"a\" | \"b\" );\n",
	"grammar h;\nID = /[a-z]+/;\nstart = {{ ID }} [ \"x\" ID ] | ;\n",
	"grammar e;\nWS = $BOGUS;\nstart = \"a\";\n",
	"grammar f;\nID = $BOGUS;\nstart = ID;\n",
	"grammar u;\nstart = ID \"a\";\n",
	"grammar d;\nID = \"x\";\nID = \"y\";\nstart = ID;\n",
	"grammar k;\nWS = $WS;\nstart = \"a\" start | ;\n",
}

func c17Outcome(text string) string {
	s, err := Parse("f", strings.NewReader(text))
	if err != nil {
		return "error: " + err.Error()
	}
	out := c17Dump(s)
	if _, _, derr := s.DFA(); derr != nil {
		out += " automaton error: " + derr.Error()
	}
	return out
}

// harnessC17History: the outcome of processing a specification (the specification, or the diagnostics) is
// the same whether it is processed first or after any other specification of the pool, accepted or rejected.
func harnessC17History() {
	x := verif.Pick("x", len(c17Pool))
	y := verif.Pick("y", len(c17Pool))
	alone := c17Outcome(c17Pool[x])
	other := c17Outcome(c17Pool[y])
	after := c17Outcome(c17Pool[x])
	verif.Reach("compared")
	verif.Assert(alone == after, "the outcome of processing a specification depends on what was processed before: "+after+" (alone: "+alone+")")
	verif.Assert(c17Outcome(c17Pool[y]) == other, "the outcome of processing a specification depends on what was processed before (second specification)")
}
