//go:build verif

package spec

import (
	"strings"
	"sync"
	"testing"
)

// TestVerifRace is the native confirmation of a schedule-dependent counterexample: the same two
// bodies run on real goroutines under the race detector (go test -race), many times.
func TestVerifRace(t *testing.T) {
	for round := 0; round < 50; round++ {
		var wg sync.WaitGroup
		want := []uint64{hashStrings(c17Data(0)), hashStrings(c17Data(1))}
		for g := 0; g < 2; g++ {
			wg.Add(1)
			go func(g int) {
				defer wg.Done()
				for k := 0; k < 20; k++ {
					if got := hashStrings(c17Data(g)); got != want[g] {
						t.Errorf("VERIF-RACE-RESULT: hash of list %d is %d concurrently, %d alone", g, got, want[g])
					}
				}
			}(g)
		}
		wg.Wait()
	}
	var wg sync.WaitGroup
	for g := 0; g < 2; g++ {
		wg.Add(1)
		go func(g int) {
			defer wg.Done()
			for k := 0; k < 5; k++ {
				if _, err := Parse("f", strings.NewReader(c17Spec(g))); err != nil {
					t.Errorf("VERIF-RACE-RESULT: %v", err)
				}
			}
		}(g)
	}
	wg.Wait()
}
