//go:build verif

package parser

import (
	"strings"

	"github.com/moorara/algo/lexer"
	"github.com/moorara/algo/parser"

	"github.com/gardenbed/emerge/internal/verif"
)

// checkSyntaxError: the diagnostic of a rejected sequence names the first offending token
// (index bad; len(toks) means the input ended too early) and nothing after it was read.
func checkSyntaxError(err error, toks []lexer.Token, bad int, lx *stubLexer) {
	pe, ok := err.(*parser.ParseError)
	verif.Assert(ok, "a syntax error must be a *parser.ParseError")
	if !ok {
		return
	}
	verif.Assert(lx.requested == bad+1, "tokens after the offending one must not be read (they cannot influence the diagnostic)")
	if bad < len(toks) {
		verif.Assert(pe.Pos == toks[bad].Pos, "the syntax error does not point at the first offending token")
		verif.Assert(strings.Contains(pe.Description, toks[bad].Lexeme), "the syntax error does not quote the offending token")
	} else {
		// truncated input: the end marker is the offender; no earlier token may be blamed
		for i := range toks {
			verif.Assert(pe.Pos != toks[i].Pos || toks[i].Pos == (lexer.Position{}), "a truncated input is blamed on an earlier, innocent token")
		}
		for _, ep := range lx.eofPos {
			verif.Assert(pe.Pos != ep, "a truncated input is blamed on an earlier, innocent token (the position the scanner attaches to the end of input)")
		}
	}
	msg := err.Error()
	verif.Assert(len(msg) > 0, "the diagnostic is empty")
	if bad < len(toks) {
		at := toks[bad].Pos
		verif.Assert(strings.Contains(msg, "f:"+vitoa(at.Line)+":"+vitoa(at.Column)), "the diagnostic does not name the file, line and column of the offending token")
	}
}
