//go:build verif

package parser

import (
	"io"

	"github.com/moorara/algo/grammar"
	"github.com/moorara/algo/lexer"
	"github.com/moorara/algo/parser"

	ebnflexer "github.com/gardenbed/emerge/internal/ebnf/lexer"
	"github.com/gardenbed/emerge/internal/verif"
)

// ---- exported view of the reference parser for harnesses in other packages ---------------

// VerifNode is a node of the reference tree: Prod < 0 marks a token leaf (index Tok).
type VerifNode struct {
	Prod int
	Tok  int
	Kids []*VerifNode
}

func export(n *rnode) *VerifNode {
	if n == nil {
		return nil
	}
	out := &VerifNode{Prod: n.prod, Tok: n.tok}
	for _, k := range n.kids {
		out.Kids = append(out.Kids, export(k))
	}
	return out
}

// VerifRefParse runs the reference parser on the tokens' kinds.
func VerifRefParse(toks []lexer.Token) (*VerifNode, int) {
	t, bad := refParse(kindsOf(toks))
	return export(t), bad
}

var verifPredefKeys = []string{"$WS", "$DIGIT", "$LETTER", "$ID", "$NUMBER", "$STRING"}

// VerifSymTokens: k tokens of arbitrary kinds with distinct placeholder lexemes; a token of
// kind PREDEF carries one of the predefined names (so the typed-tree action can expand it).
func VerifSymTokens(k int) []lexer.Token {
	toks := symTokens(k)
	for i := range toks {
		to := make([]string, len(lrTermNames))
		for j, n := range lrTermNames {
			if n == "PREDEF" {
				to[j] = verifPredefKeys[i%len(verifPredefKeys)]
			} else if n == "IDENT" && i == 2 {
				to[j] = "start" // so that a specification with a start rule is among the sequences
			} else if n == "STRING" && i%2 == 1 {
				// string literals with escapes, as the scanner delivers them (the text between the quotes, verbatim)
				to[j] = toks[i].Lexeme + []string{"\\\\", "\\\"x", "\\d"}[(i/2)%3]
			} else {
				to[j] = toks[i].Lexeme
			}
		}
		toks[i].Lexeme = verif.EnumMap(string(toks[i].Terminal), lrTermNames, to)
	}
	return toks
}

// VerifBodyTokens: the tokens `grammar IDENT IDENT =`, then k arbitrary tokens, then `;` - a
// specification with one rule whose body is arbitrary (deeper operator nesting for the same k).
func VerifBodyTokens(k int) []lexer.Token {
	body := VerifSymTokens(k)
	fixed := []string{"grammar", "IDENT", "IDENT", "="}
	toks := make([]lexer.Token, 0, k+5)
	mk := func(kind string, i int) lexer.Token {
		return lexer.Token{Terminal: grammar.Terminal(kind), Lexeme: "f" + vitoa(i), Pos: lexer.Position{Filename: "f", Offset: 1000 + i, Line: 50 + i, Column: 3}}
	}
	for i, kd := range fixed {
		toks = append(toks, mk(kd, i))
	}
	toks = append(toks, body...)
	return append(toks, mk(";", 9))
}

// VerifOpenDirectiveTokens: the tokens `grammar IDENT @left TOKEN`, then k arbitrary tokens - a
// specification that begins with a directive whose first handle is given, so that further handles (terminals,
// rule handles) and the declarations after it are reached with few tokens.
func VerifOpenDirectiveTokens(k int) []lexer.Token {
	body := VerifSymTokens(k)
	fixed := []string{"grammar", "IDENT", "@left", "TOKEN"}
	toks := make([]lexer.Token, 0, k+4)
	for i, kd := range fixed {
		toks = append(toks, lexer.Token{Terminal: grammar.Terminal(kd), Lexeme: "f" + vitoa(i), Pos: lexer.Position{Filename: "f", Offset: 1000 + i, Line: 50 + i, Column: 3}})
	}
	return append(toks, body...)
}

var verifLexer lexer.Lexer

// VerifSetLexer makes the next parser built through VerifNew read from the given tokens.
func VerifSetLexer(toks []lexer.Token) {
	if toks == nil {
		verifLexer = nil
		return
	}
	verifLexer = &stubLexer{toks: toks, failAt: -1}
}

// VerifNew is what New does in harness builds of the typed-tree package: with a stub lexer
// installed it returns a parser over it, otherwise it builds the real scanner as New does.
// (For those builds the overlay presents parser.go with New renamed to verifOrigNew, and
// zz_verif_new.go defines New as a call of VerifNew.)
func VerifNew(filename string, src io.Reader) (*Parser, error) {
	if verifLexer != nil {
		return &Parser{L: verifLexer}, nil
	}
	L, err := ebnflexer.New(filename, src)
	if err != nil {
		return nil, err
	}
	return &Parser{L: L}, nil
}

// ---- the generic parse tree ------------------------------------------------------------------

func sameTree(n parser.Node, r *rnode, toks []lexer.Token) bool {
	if r.prod < 0 {
		leaf, ok := n.(*parser.LeafNode)
		if !ok {
			return false
		}
		t := toks[r.tok]
		return verif.StrEq(string(leaf.Terminal), string(t.Terminal)) && verif.StrEq(leaf.Lexeme, t.Lexeme) && leaf.Position == t.Pos
	}
	in, ok := n.(*parser.InternalNode)
	if !ok {
		return false
	}
	if in.Production != productions[r.prod] || in.NonTerminal != productions[r.prod].Head || len(in.Children) != len(r.kids) {
		return false
	}
	for i := range r.kids {
		if !sameTree(in.Children[i], r.kids[i], toks) {
			return false
		}
	}
	return true
}

// harnessC11Generic: ParseAndBuildAST yields the tree whose leaves, left to right, are the
// shifted tokens with their positions and whose interior nodes each apply one production, in
// the shape the documented precedence prescribes.
func harnessC11Generic() {
	k := verif.Len("k", 0, lrTreeK)
	checkGenericTree(symTokens(k))
}

// harnessC11GenericBody: the same for one rule with an arbitrary body of up to lrBodyK tokens.
func harnessC11GenericBody() {
	k := verif.Len("k", 0, lrBodyK)
	checkGenericTree(VerifBodyTokens(k))
}

// harnessC11GenericDirective: the same for a specification that begins with an open directive.
func harnessC11GenericDirective() {
	k := verif.Len("k", 0, lrBodyK+1)
	checkGenericTree(VerifOpenDirectiveTokens(k))
}

func checkGenericTree(toks []lexer.Token) {
	p := &Parser{L: &stubLexer{toks: toks, failAt: -1}}
	root, err := p.ParseAndBuildAST()
	tree, _ := refParse(kindsOf(toks))
	if tree == nil {
		verif.Reach("rejected")
		verif.Assert(err != nil && root == nil, "a non-sentence yields a tree")
		return
	}
	verif.Reach("tree")
	verif.Assert(err == nil && root != nil, "a sentence yields no tree")
	if err != nil || root == nil {
		return
	}
	verif.Assert(sameTree(root, tree, toks), "the parse tree is not the derivation tree of the documented grammar over the input tokens")
	_ = grammar.Endmarker
}

// VerifDirectiveTokens: the fixed specification
//     grammar g ; TK = "k" ; start = "s" TK ;
// followed by k arbitrary tokens (the place where directives and further declarations go).  Lexemes of
// the arbitrary part are chosen so that references resolve: an IDENT is "start", a TOKEN is "TK", a
// STRING at position i is "s<i>" (string literals define themselves), a PREDEF is a predefined name.
// Variants change the fixed part (see the cases below).
func VerifDirectiveTokens(k int, variant int) ([]lexer.Token, int) {
	fixedKinds := []string{"grammar", "IDENT", ";", "TOKEN", "=", "STRING", ";", "IDENT", "=", "STRING", "TOKEN", ";"}
	fixedLex := []string{"grammar", "g", ";", "TK", "=", "k", ";", "start", "=", "s", "TK", ";"}
	switch variant {
	case 1: // the start rule is `start = TK | ;`, so that short rule handles name productions already declared
		fixedKinds = []string{"grammar", "IDENT", ";", "TOKEN", "=", "STRING", ";", "IDENT", "=", "TOKEN", "|", ";"}
		fixedLex = []string{"grammar", "g", ";", "TK", "=", "k", ";", "start", "=", "TK", "|", ";"}
	case 2: // a directive that already lists a terminal is left open, so that the appended handles are not the first
		fixedKinds = append(fixedKinds, "@right", "TOKEN")
		fixedLex = append(fixedLex, "@right", "TK")
	case 3: // the same with a rule handle listed first
		fixedKinds = append(fixedKinds, "@none", "<", "IDENT", "=", "TOKEN", ">")
		fixedLex = append(fixedLex, "@none", "<", "start", "=", "TK", ">")
	}
	toks := make([]lexer.Token, 0, len(fixedKinds)+k)
	for i := range fixedKinds {
		toks = append(toks, lexer.Token{Terminal: grammar.Terminal(fixedKinds[i]), Lexeme: fixedLex[i],
			Pos: lexer.Position{Filename: "f", Offset: 1000 + i, Line: 50 + i, Column: 3}})
	}
	body := symTokens(k)
	for i := range body {
		to := make([]string, len(lrTermNames))
		for j, n := range lrTermNames {
			switch n {
			case "IDENT":
				to[j] = "start"
			case "TOKEN":
				to[j] = "TK"
			case "STRING":
				to[j] = "s" + vitoa(i)
			case "PREDEF":
				to[j] = verifPredefKeys[i%len(verifPredefKeys)]
			default:
				to[j] = body[i].Lexeme
			}
		}
		body[i].Lexeme = verif.EnumMap(string(body[i].Terminal), lrTermNames, to)
	}
	return append(toks, body...), len(fixedKinds)
}

// VerifPoolTokens: `grammar g ;` followed by k arbitrary tokens whose lexemes come from small pools
// chosen by kind and position, so that undefined, doubly defined and equal-valued terminals, unknown
// predefined names, invalid patterns, rules without production and missing start rules all arise.
func VerifPoolTokens(k int, variant int) ([]lexer.Token, int) {
	fixedKinds := []string{"grammar", "IDENT", ";"}
	fixedLex := []string{"grammar", "g", ";"}
	switch variant {
	case 1: // a rule that uses a token and a literal comes first
		fixedKinds = append(fixedKinds, "IDENT", "=", "STRING", "TOKEN", ";")
		fixedLex = append(fixedLex, "start", "=", "s", "TA", ";")
	case 2: // two token definitions come first
		fixedKinds = append(fixedKinds, "TOKEN", "=", "STRING", ";", "TOKEN", "=", "REGEX", ";")
		fixedLex = append(fixedLex, "TA", "=", "s", ";", "TB", "=", "x", ";")
	case 3: // a directive and a start rule come first
		fixedKinds = append(fixedKinds, "@left", "STRING", ";", "IDENT", "=", "STRING", "IDENT", ";")
		fixedLex = append(fixedLex, "@left", "s", ";", "start", "=", "s", "aa", ";")
	case 5: // two string tokens whose values the literals of the pools repeat: several "same value" groups arise (C15)
		fixedKinds = append(fixedKinds, "TOKEN", "=", "STRING", ";", "TOKEN", "=", "STRING", ";", "IDENT", "=", "TOKEN", "TOKEN", ";")
		fixedLex = append(fixedLex, "TA", "=", "s", ";", "TB", "=", "t", ";", "start", "=", "TA", "TB", ";")
	case 6: // three patterns that capture common strings in two different ways: several conflicting final states arise (C15)
		fixedKinds = append(fixedKinds, "TOKEN", "=", "REGEX", ";", "TOKEN", "=", "REGEX", ";", "TOKEN", "=", "REGEX", ";", "IDENT", "=", "TOKEN", "TOKEN", "TOKEN", ";")
		fixedLex = append(fixedLex, "TA", "=", "y", ";", "TB", "=", "y|zz", ";", "TC", "=", "zz", ";", "start", "=", "TA", "TB", "TC", ";")
	case 7: // two tokens with invalid patterns: the automaton step reports several problems (C15)
		fixedKinds = append(fixedKinds, "TOKEN", "=", "REGEX", ";", "TOKEN", "=", "REGEX", ";", "IDENT", "=", "TOKEN", "TOKEN", ";")
		fixedLex = append(fixedLex, "TA", "=", "(", ";", "TB", "=", "[", ";", "start", "=", "TA", "TB", ";")
	case 4: // a complete well-formed specification comes first, so that a repeated definition can be the only defect
		fixedKinds = append(fixedKinds, "TOKEN", "=", "STRING", ";", "TOKEN", "=", "REGEX", ";", "IDENT", "=", "TOKEN", "TOKEN", ";")
		fixedLex = append(fixedLex, "TA", "=", "s", ";", "TB", "=", "x", ";", "start", "=", "TA", "TB", ";")
	}
	toks := make([]lexer.Token, 0, len(fixedKinds)+k)
	for i := range fixedKinds {
		toks = append(toks, lexer.Token{Terminal: grammar.Terminal(fixedKinds[i]), Lexeme: fixedLex[i],
			Pos: lexer.Position{Filename: "f", Offset: 1000 + i, Line: 50 + i, Column: 3}})
	}
	body := symTokens(k)
	for i := range body {
		to := make([]string, len(lrTermNames))
		for j, n := range lrTermNames {
			switch n {
			case "IDENT":
				to[j] = []string{"start", "aa", "aa"}[i%3]
			case "TOKEN":
				to[j] = []string{"TA", "TB"}[i%2]
			case "STRING":
				to[j] = []string{"s", "t", "s"}[i%3]
				if variant == 5 {
					to[j] = []string{"s", "t"}[i%2]
				}
			case "REGEX":
				to[j] = []string{"x", "y", "(", "x"}[i%4]
			case "PREDEF":
				to[j] = []string{"$ID", "$DIGIT", "$BOGUS", "$ID"}[i%4]
			default:
				to[j] = body[i].Lexeme
			}
		}
		body[i].Lexeme = verif.EnumMap(string(body[i].Terminal), lrTermNames, to)
	}
	return append(toks, body...), len(fixedKinds)
}
