//go:build verif

package parser

import (
	"errors"

	"github.com/moorara/algo/grammar"
	"github.com/moorara/algo/lexer"
	"github.com/moorara/algo/parser/lr"

	"github.com/gardenbed/emerge/internal/verif"
)

type sentinelError struct{ n int }

func (e *sentinelError) Error() string { return "injected failure " + vitoa(e.n) }

// interior lists the interior nodes of the reference tree in post-order.
func interior(n *rnode, out *[]*rnode) {
	if n.prod < 0 {
		return
	}
	for _, k := range n.kids {
		interior(k, out)
	}
	*out = append(*out, n)
}

// harnessLREvaluate: ParseAndEvaluate hands the evaluation callback exactly the values of the
// production's body symbols, left to right, and the result (with the first body symbol's
// position) becomes the value of the head.
func harnessLREvaluate() {
	k := verif.Len("k", 2, lrEvalK)
	lrEvaluateOn(symTokens(k))
}

// harnessLREvaluateLong: the same on long sentences (the shapes and sizes of harnessLRLong, one token
// kind arbitrary): values and positions of symbols that stay on the stack across many shifts - the "=" of a
// long rule, opening brackets, every "|" of a long alternation - must still be their own when they are reduced.
func harnessLREvaluateLong() {
	s := verif.Pick("shape", lrLongShapes)
	n := lrLongNs[verif.Pick("size", len(lrLongNs))]
	kinds := lrLongShape(s, n)
	toks := make([]lexer.Token, len(kinds))
	for i, kd := range kinds {
		toks[i] = lexer.Token{Terminal: grammar.Terminal(kd), Lexeme: "t" + vitoa(i), Pos: lexer.Position{Filename: "f", Offset: 10 * i, Line: 1 + i/4, Column: 1 + 7*(i%4)}}
	}
	if verif.Pick("where", 2) == 1 {
		toks[len(toks)/2].Terminal = grammar.Terminal(verif.Enum("t", lrTermNames...))
	}
	lrEvaluateOn(toks)
}

func lrEvaluateOn(toks []lexer.Token) {
	tree, _ := refParse(kindsOf(toks))
	if tree == nil {
		return // rejected inputs are the subject of harnessLRParse
	}
	var order []*rnode
	interior(tree, &order)
	tagOf := map[*rnode]int{}
	posOf := map[*rnode]*lexer.Position{}
	call := 0
	p := &Parser{L: &stubLexer{toks: toks, failAt: -1}}
	root, err := p.ParseAndEvaluate(func(i int, rhs []*lr.Value) (any, error) {
		verif.Assert(call < len(order), "more evaluation callbacks than reductions in the derivation")
		if call >= len(order) {
			return nil, nil
		}
		n := order[call]
		call++
		verif.Assert(i == n.prod, "evaluation callback for another production than the derivation's next reduction")
		verif.Assert(len(rhs) == len(n.kids), "evaluation callback receives a wrong number of values")
		if i != n.prod || len(rhs) != len(n.kids) {
			return nil, nil
		}
		for m, kid := range n.kids {
			v := rhs[m]
			verif.Assert(v != nil, "nil value for a body symbol")
			if v == nil {
				continue
			}
			if kid.prod < 0 {
				s, ok := v.Val.(string)
				verif.Assert(ok && s == toks[kid.tok].Lexeme, "value of a terminal is not its lexeme")
				verif.Assert(v.Pos != nil && *v.Pos == toks[kid.tok].Pos, "position of a terminal value is not the token's")
			} else {
				t, ok := v.Val.(int)
				verif.Assert(ok && t == tagOf[kid], "value of a non-terminal is not what the callback returned for it")
				want := posOf[kid]
				if want == nil {
					verif.Assert(v.Pos == nil, "an empty derivation must carry no position")
				} else {
					verif.Assert(v.Pos != nil && *v.Pos == *want, "position of a non-terminal is not its first body symbol's")
				}
			}
		}
		tag := 1000 + call
		tagOf[n] = tag
		if len(n.kids) > 0 {
			first := n.kids[0]
			if first.prod < 0 {
				pp := toks[first.tok].Pos
				posOf[n] = &pp
			} else {
				posOf[n] = posOf[first]
			}
		}
		return tag, nil
	})
	verif.Reach("evaluated")
	verif.Assert(err == nil, "ParseAndEvaluate rejects a sentence")
	if err != nil {
		return
	}
	verif.Assert(call == len(order), "fewer evaluation callbacks than reductions in the derivation")
	verif.Assert(root != nil, "success with a nil result")
	if root == nil {
		return
	}
	t, ok := root.Val.(int)
	verif.Assert(ok && t == tagOf[tree], "the result is not the value of the start symbol")
}

// harnessLRFailure: an error returned by the callback number failAt (token, production or
// evaluation callback, or the lexer) stops the parse there and is returned to the caller.
func harnessLRFailure() {
	k := verif.Len("k", 2, lrFailK)
	toks := symTokens(k)
	tree, _ := refParse(kindsOf(toks))
	if tree == nil {
		return
	}
	var ev []int
	events(tree, &ev)
	mode := verif.Pick("mode", 3)
	failAt := verif.IntRange("failAt", 0, len(ev))
	sent := &sentinelError{n: 7}
	count, after := 0, 0
	failed := false
	step := func() error {
		if failed {
			after++
		}
		c := count
		count++
		if c == failAt {
			failed = true
			return sent
		}
		return nil
	}
	var err error
	switch mode {
	case 0:
		p := &Parser{L: &stubLexer{toks: toks, failAt: -1}}
		err = p.Parse(func(*lexer.Token) error { return step() }, func(int) error { return step() })
	case 1:
		p := &Parser{L: &stubLexer{toks: toks, failAt: -1}}
		_, err = p.ParseAndEvaluate(func(int, []*lr.Value) (any, error) {
			e := step()
			return 1, e
		})
	default:
		lx := &stubLexer{toks: toks, failAt: verif.Concretize(failAt), failErr: sent}
		verif.Assume(failAt <= len(toks))
		p := &Parser{L: lx}
		err = p.Parse(func(*lexer.Token) error { count++; return nil }, func(int) error { count++; return nil })
		failed = true
		verif.Reach("lexer-failure")
		verif.Assert(err != nil && errors.Is(err, sent), "an error of the lexer is not returned to the caller")
		verif.Assert(lx.requested == lx.failAt+1, "the parse continues after the lexer failed")
		return
	}
	if failed {
		verif.Reach("callback-failure")
		verif.Assert(err != nil && errors.Is(err, sent), "an error returned by a callback is not returned to the caller")
		verif.Assert(after == 0, "callbacks keep firing after one of them failed")
	} else {
		verif.Reach("no-failure")
		verif.Assert(err == nil, "a sentence is rejected although no callback failed")
	}
}
