//go:build verif

package parser

import (
	"github.com/moorara/algo/grammar"
	"github.com/moorara/algo/parser/lr"

	"github.com/gardenbed/emerge/internal/verif"
)

var lrNonTermNames = []string{
	"grammar", "name", "decls", "decl", "semi_opt", "token",
	"directive", "handles", "rule_handle", "rule", "lhs", "rhs", "nonterm", "term",
}

// docProductions is the documented grammar (docs/5-definitions.md, grammar block) written as
// plain productions, in the order the production callback numbers them.  "T:" marks terminals.
var docProductions = [][]string{
	{"grammar", "name", "decls"},
	{"name", "T:grammar", "T:IDENT", "semi_opt"},
	{"decls", "decls", "decl"},
	{"decls"},
	{"decl", "token", "semi_opt"},
	{"decl", "directive", "semi_opt"},
	{"decl", "rule", "T:;"},
	{"semi_opt", "T:;"},
	{"semi_opt"},
	{"token", "T:TOKEN", "T:=", "T:STRING"},
	{"token", "T:TOKEN", "T:=", "T:REGEX"},
	{"token", "T:TOKEN", "T:=", "T:PREDEF"},
	{"directive", "T:@left", "handles"},
	{"directive", "T:@right", "handles"},
	{"directive", "T:@none", "handles"},
	{"handles", "handles", "term"},
	{"handles", "handles", "rule_handle"},
	{"handles", "term"},
	{"handles", "rule_handle"},
	{"rule_handle", "T:<", "rule", "T:>"},
	{"rule", "lhs", "T:=", "rhs"},
	{"rule", "lhs", "T:="},
	{"lhs", "nonterm"},
	{"rhs", "rhs", "rhs"},
	{"rhs", "T:(", "rhs", "T:)"},
	{"rhs", "T:[", "rhs", "T:]"},
	{"rhs", "T:{", "rhs", "T:}"},
	{"rhs", "T:{{", "rhs", "T:}}"},
	{"rhs", "rhs", "T:|", "rhs"},
	{"rhs", "rhs", "T:|"},
	{"rhs", "nonterm"},
	{"rhs", "term"},
	{"nonterm", "T:IDENT"},
	{"term", "T:TOKEN"},
	{"term", "T:STRING"},
}

// harnessC04Productions: the package's production list is the documented grammar.
func harnessC04Productions() {
	verif.Assert(len(productions) == len(docProductions), "the number of productions differs from the documented grammar")
	for i, d := range docProductions {
		p := productions[i]
		ok := string(p.Head) == d[0] && len(p.Body) == len(d)-1
		for j := 0; ok && j < len(p.Body); j++ {
			x := p.Body[j]
			if x.IsTerminal() {
				ok = d[j+1] == "T:"+x.Name()
			} else {
				ok = d[j+1] == x.Name()
			}
		}
		verif.Assert(ok, "production "+vitoa(i)+" is not the documented one")
	}
	verif.Reach("productions")
}

// harnessC04Tables: for every state (and every integer that is not a state) and every terminal
// and non-terminal (and strings that are neither), the embedded ACTION/GOTO equal the LALR(1)
// table the library constructs for the same grammar and precedences: same entries, no extra.
func harnessC04Tables() {
	var s int
	if verif.Pick("range", 2) == 0 {
		s = verif.Concretize(verif.IntRange("s", -2, refMaxState+2))
	} else {
		s = verif.Int("s")
		verif.Assume(verif.Or(s < -2, s > refMaxState+2))
	}
	termChoices := append(append([]string{}, lrTermNames...), string(grammar.Endmarker), "ERR", "", "x")
	a := verif.Enum("a", termChoices...)
	typ, param, err := ACTION(s, grammar.Terminal(a))
	wt, wp := refACTION(s, a)
	verif.Reach("action")
	if wt == 0 {
		verif.Assert(err != nil && typ == lr.ERROR, "ACTION has an entry the LALR(1) table does not have")
	} else {
		verif.Assert(err == nil, "ACTION lacks an entry of the LALR(1) table")
		verif.Assert(int(typ) == wt && param == wp, "ACTION entry differs from the LALR(1) table")
	}
	ntChoices := append(append([]string{}, lrNonTermNames...), "", "x", "IDENT")
	A := verif.Enum("A", ntChoices...)
	verif.Reach("goto")
	verif.Assert(GOTO(s, grammar.NonTerminal(A)) == refGOTO(s, A), "GOTO entry differs from the LALR(1) table")
}
