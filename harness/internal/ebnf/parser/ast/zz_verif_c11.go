//go:build verif

package ast

import (
	"fmt"

	"github.com/moorara/algo/lexer"
	"github.com/moorara/algo/parser/lr"

	"github.com/gardenbed/emerge/internal/ebnf/parser"
	"github.com/gardenbed/emerge/internal/verif"
)

// An independent builder of the typed tree: it walks the reference derivation tree and builds
// what the documentation says each construct means (declarations in order, operators, nesting,
// operand order; juxtaposition and alternation flattened; a group is transparent).

type builder struct{ toks []lexer.Token }

func (b *builder) pos(n *parser.VerifNode) *lexer.Position {
	// position of the first token below n (nil if n derives the empty string)
	if n.Prod < 0 {
		p := b.toks[n.Tok].Pos
		return &p
	}
	for _, k := range n.Kids {
		if p := b.pos(k); p != nil {
			return p
		}
		return nil // the first body symbol is empty: no position (C18's rule)
	}
	return nil
}

func (b *builder) lex(n *parser.VerifNode) string { return b.toks[n.Tok].Lexeme }

func (b *builder) term(n *parser.VerifNode) string {
	if n.Prod == 34 {
		return fmt.Sprintf("%q", b.lex(n.Kids[0]))
	}
	return b.lex(n.Kids[0])
}

func (b *builder) rhs(n *parser.VerifNode) RHS {
	switch n.Prod {
	case 23:
		var ops []RHS
		for _, k := range n.Kids {
			r := b.rhs(k)
			if c, ok := r.(*ConcatRHS); ok {
				ops = append(ops, c.Ops...)
			} else {
				ops = append(ops, r)
			}
		}
		return &ConcatRHS{Ops: ops}
	case 24:
		return b.rhs(n.Kids[1])
	case 25:
		return &OptRHS{Op: b.rhs(n.Kids[1]), Position: b.pos(n.Kids[0])}
	case 26:
		return &StarRHS{Op: b.rhs(n.Kids[1]), Position: b.pos(n.Kids[0])}
	case 27:
		return &PlusRHS{Op: b.rhs(n.Kids[1]), Position: b.pos(n.Kids[0])}
	case 28, 29:
		var ops []RHS
		add := func(r RHS) {
			if c, ok := r.(*AltRHS); ok {
				ops = append(ops, c.Ops...)
			} else {
				ops = append(ops, r)
			}
		}
		add(b.rhs(n.Kids[0]))
		if n.Prod == 28 {
			add(b.rhs(n.Kids[2]))
		} else {
			ops = append(ops, &EmptyRHS{})
		}
		return &AltRHS{Ops: ops}
	case 30:
		return &NonTerminalRHS{NonTerminal: b.lex(n.Kids[0].Kids[0]), Position: b.pos(n.Kids[0])}
	case 31:
		return &TerminalRHS{Terminal: b.term(n.Kids[0]), Position: b.pos(n.Kids[0])}
	}
	panic("verif: not an rhs node")
}

func (b *builder) rule(n *parser.VerifNode) *RuleDecl {
	lhs := n.Kids[0] // lhs -> nonterm -> IDENT
	r := &RuleDecl{LHS: b.lex(lhs.Kids[0].Kids[0]), Position: b.pos(lhs)}
	if n.Prod == 20 {
		r.RHS = b.rhs(n.Kids[2])
	} else {
		r.RHS = &EmptyRHS{}
	}
	return r
}

func (b *builder) handles(n *parser.VerifNode, out *[]PrecedenceHandle) {
	item := n.Kids[len(n.Kids)-1]
	if n.Prod == 15 || n.Prod == 16 {
		b.handles(n.Kids[0], out)
	}
	switch n.Prod {
	case 15, 17:
		*out = append(*out, &TerminalHandle{Terminal: b.term(item), Position: b.pos(item)})
	case 16, 18:
		r := b.rule(item.Kids[1])
		*out = append(*out, &ProductionHandle{LHS: r.LHS, RHS: r.RHS, Position: b.pos(item)})
	}
}

func (b *builder) decl(n *parser.VerifNode) Decl {
	body := n.Kids[0]
	switch n.Prod {
	case 4:
		name := b.lex(body.Kids[0])
		val := b.lex(body.Kids[2])
		switch body.Prod {
		case 9:
			return &StringTokenDecl{Name: name, Value: val, Position: b.pos(body)}
		case 10:
			return &RegexTokenDecl{Name: name, Regex: val, Position: b.pos(body)}
		default:
			return &RegexTokenDecl{Name: name, Regex: parser.Predefs[verif.ConcretizeString(val)], Position: b.pos(body)}
		}
	case 5:
		assoc := lr.LEFT
		if body.Prod == 13 {
			assoc = lr.RIGHT
		} else if body.Prod == 14 {
			assoc = lr.NONE
		}
		var hs []PrecedenceHandle
		b.handles(body.Kids[1], &hs)
		return &PrecedenceDecl{Associativity: assoc, Handles: hs, Position: b.pos(body)}
	}
	return b.rule(body)
}

func (b *builder) decls(n *parser.VerifNode, out *[]Decl) {
	if n.Prod == 3 {
		return
	}
	b.decls(n.Kids[0], out)
	*out = append(*out, b.decl(n.Kids[1]))
}

func (b *builder) grammar(n *parser.VerifNode) *Grammar {
	name := n.Kids[0]
	g := &Grammar{Name: b.lex(name.Kids[1]), Position: b.pos(name)}
	b.decls(n.Kids[1], &g.Decls)
	return g
}

// harnessC11Typed: the typed tree emerge builds equals the independently built one, for every
// token sequence of up to astK tokens (kinds symbolic); no sequence makes the actions panic.
func harnessC11Typed() {
	k := verif.Len("k", 0, astK)
	checkTyped(parser.VerifSymTokens(k))
}

// harnessC11TypedBody: the same for one rule with an arbitrary body of up to astBodyK tokens.
func harnessC11TypedBody() {
	k := verif.Len("k", 0, astBodyK)
	checkTyped(parser.VerifBodyTokens(k))
}

// harnessC11TypedDirective: the same for a specification that begins with an open directive
// (`grammar IDENT @left TOKEN` followed by up to astBodyK+1 arbitrary tokens): second and later handles.
func harnessC11TypedDirective() {
	k := verif.Len("k", 0, astBodyK+1)
	checkTyped(parser.VerifOpenDirectiveTokens(k))
}

func checkTyped(toks []lexer.Token) {
	parser.VerifSetLexer(toks)
	g, err := Parse("f", nil)
	tree, _ := parser.VerifRefParse(toks)
	if tree == nil {
		verif.Reach("rejected")
		verif.Assert(err != nil && g == nil, "a non-sentence yields a typed tree")
		return
	}
	verif.Reach("typed-tree")
	verif.Assert(err == nil, "a sentence yields an error instead of a typed tree")
	verif.Assert(err != nil || g != nil, "success with a nil result")
	if err != nil || g == nil {
		return
	}
	want := (&builder{toks: toks}).grammar(tree)
	verif.Assert(verif.StrEq(g.Name, want.Name), "grammar name differs from the source")
	verif.Assert(len(g.Decls) == len(want.Decls), "the typed tree has a different number of declarations than the source")
	verif.Assert(g.Equal(want) && want.Equal(g), "the typed tree differs from the declarations, operators, nesting and operand order written in the source")
}
