//go:build verif

package parser

import (
	"io"
	"strings"

	"github.com/moorara/algo/grammar"
	"github.com/moorara/algo/lexer"

	ebnflexer "github.com/gardenbed/emerge/internal/ebnf/lexer"
	"github.com/gardenbed/emerge/internal/verif"
)

// ---- a lexer that yields an arbitrary (symbolic) sequence of token kinds ------------------

var lrTermNames = []string{
	"=", ";", "|", "(", ")", "[", "]", "{", "}", "{{", "}}", "<", ">",
	"grammar", "@left", "@right", "@none",
	"IDENT", "TOKEN", "STRING", "REGEX", "PREDEF",
}

type stubLexer struct {
	toks      []lexer.Token
	i         int
	requested int
	failAt    int // index of the NextToken call that fails with failErr (-1: never)
	failErr   error
	eof       lexer.Lexer      // if set: a real scanner that has reached its end of input; it answers the calls past the last token
	eofPos    []lexer.Position // positions of the tokens that scanner delivered before
}

func (s *stubLexer) NextToken() (lexer.Token, error) {
	s.requested++
	if s.failAt >= 0 && s.requested-1 == s.failAt {
		return lexer.Token{}, s.failErr
	}
	if s.i >= len(s.toks) {
		if s.eof != nil {
			return s.eof.NextToken()
		}
		return lexer.Token{}, io.EOF
	}
	t := s.toks[s.i]
	s.i++
	return t, nil
}

// atEOF installs a real scanner that has delivered k tokens and reached the end of its input, so
// that what the parser sees at the end of input is what the real scanner returns there.
func (s *stubLexer) atEOF(k int) {
	text := ""
	for i := 0; i < k; i++ {
		text += "x" + vitoa(i) + "\n"
	}
	if k == 0 {
		text = "\n"
	}
	l, err := ebnflexer.New("f", strings.NewReader(text))
	if err != nil {
		return
	}
	for i := 0; i < k; i++ {
		t, err := l.NextToken()
		if err != nil {
			return
		}
		s.eofPos = append(s.eofPos, t.Pos)
	}
	s.eof = l
}

// symTokens builds k tokens of arbitrary kinds; lexemes and positions are distinct
// placeholders so that order and identity are observable.
func symTokens(k int) []lexer.Token {
	toks := make([]lexer.Token, k)
	for i := range toks {
		toks[i] = lexer.Token{
			Terminal: grammar.Terminal(verif.Enum("t", lrTermNames...)),
			Lexeme:   "t" + vitoa(i),
			Pos:      lexer.Position{Filename: "f", Offset: 10 * i, Line: 1 + i/4, Column: 1 + 7*(i%4)},
		}
	}
	return toks
}

func vitoa(n int) string {
	if n == 0 {
		return "0"
	}
	s := ""
	neg := n < 0
	if neg {
		n = -n
	}
	for n > 0 {
		s = string(rune('0'+n%10)) + s
		n /= 10
	}
	if neg {
		s = "-" + s
	}
	return s
}

// ---- reference parser written from docs/5-definitions.md ---------------------------------
//
// Grammar block + the published precedence list: juxtaposition binds tighter than "|" and is
// left-associative; "|" groups to the right; a trailing "|" adds the empty alternative;
// handles and operands are consumed greedily; ";" after name, token and directive is optional.
// The tree it builds is numbered with the production indices of the grammar block in the
// order the documentation lists them (0..34), so its post-order is the rightmost derivation
// in reverse that a shift-reduce parser must announce.

type rnode struct {
	prod int // production index, or -1 for a token leaf
	tok  int // token index for leaves
	kids []*rnode
}

type rparser struct {
	k      []grammar.Terminal
	i      int
	failed bool
}

func (p *rparser) peek() grammar.Terminal {
	if p.i < len(p.k) {
		return p.k[p.i]
	}
	return grammar.Endmarker
}

func (p *rparser) leaf() *rnode {
	n := &rnode{prod: -1, tok: p.i}
	p.i++
	return n
}

func (p *rparser) expect(a grammar.Terminal) *rnode {
	if p.failed {
		return nil
	}
	if p.peek() == a {
		return p.leaf()
	}
	p.failed = true
	return nil
}

func nd(prod int, kids ...*rnode) *rnode { return &rnode{prod: prod, kids: kids} }

func isOperandStart(a grammar.Terminal) bool {
	switch a {
	case "IDENT", "TOKEN", "STRING", "(", "[", "{", "{{":
		return true
	}
	return false
}

func (p *rparser) semiOpt() *rnode {
	if p.peek() == ";" {
		return nd(7, p.leaf())
	}
	return nd(8)
}

func (p *rparser) term() *rnode {
	switch p.peek() {
	case "TOKEN":
		return nd(33, p.leaf())
	case "STRING":
		return nd(34, p.leaf())
	}
	p.failed = true
	return nil
}

func (p *rparser) operand() *rnode {
	switch a := p.peek(); a {
	case "IDENT":
		return nd(30, nd(32, p.leaf()))
	case "TOKEN", "STRING":
		return nd(31, p.term())
	case "(", "[", "{", "{{":
		open := p.leaf()
		body := p.rhs()
		if p.failed {
			return nil
		}
		var cl grammar.Terminal
		prod := 0
		switch a {
		case "(":
			cl, prod = ")", 24
		case "[":
			cl, prod = "]", 25
		case "{":
			cl, prod = "}", 26
		default:
			cl, prod = "}}", 27
		}
		c := p.expect(cl)
		if p.failed {
			return nil
		}
		return nd(prod, open, body, c)
	}
	p.failed = true
	return nil
}

func (p *rparser) concat() *rnode {
	cur := p.operand()
	for !p.failed && isOperandStart(p.peek()) {
		nxt := p.operand()
		if p.failed {
			return nil
		}
		cur = nd(23, cur, nxt)
	}
	return cur
}

func (p *rparser) rhs() *rnode {
	cur := p.concat()
	for !p.failed && p.peek() == "|" {
		bar := p.leaf()
		if isOperandStart(p.peek()) {
			right := p.rhs()
			if p.failed {
				return nil
			}
			return nd(28, cur, bar, right)
		}
		cur = nd(29, cur, bar)
	}
	if p.failed {
		return nil
	}
	return cur
}

func (p *rparser) rule() *rnode {
	id := p.expect("IDENT")
	if p.failed {
		return nil
	}
	lhs := nd(22, nd(32, id))
	eq := p.expect("=")
	if p.failed {
		return nil
	}
	if isOperandStart(p.peek()) {
		r := p.rhs()
		if p.failed {
			return nil
		}
		return nd(20, lhs, eq, r)
	}
	return nd(21, lhs, eq)
}

func (p *rparser) handle() (*rnode, bool) {
	switch p.peek() {
	case "TOKEN", "STRING":
		return p.term(), true
	case "<":
		lt := p.leaf()
		r := p.rule()
		if p.failed {
			return nil, false
		}
		gt := p.expect(">")
		if p.failed {
			return nil, false
		}
		return nd(19, lt, r, gt), false
	}
	p.failed = true
	return nil, false
}

func (p *rparser) spec() *rnode {
	g := p.expect("grammar")
	id := p.expect("IDENT")
	if p.failed {
		return nil
	}
	name := nd(1, g, id, p.semiOpt())
	decls := nd(3)
	for {
		switch a := p.peek(); a {
		case grammar.Endmarker:
			return nd(0, name, decls)
		case "TOKEN":
			t := p.leaf()
			eq := p.expect("=")
			if p.failed {
				return nil
			}
			var tk *rnode
			switch p.peek() {
			case "STRING":
				tk = nd(9, t, eq, p.leaf())
			case "REGEX":
				tk = nd(10, t, eq, p.leaf())
			case "PREDEF":
				tk = nd(11, t, eq, p.leaf())
			default:
				p.failed = true
				return nil
			}
			decls = nd(2, decls, nd(4, tk, p.semiOpt()))
		case "@left", "@right", "@none":
			kw := p.leaf()
			h, isTerm := p.handle()
			if p.failed {
				return nil
			}
			var hs *rnode
			if isTerm {
				hs = nd(17, h)
			} else {
				hs = nd(18, h)
			}
			for p.peek() == "TOKEN" || p.peek() == "STRING" || p.peek() == "<" {
				h, isTerm = p.handle()
				if p.failed {
					return nil
				}
				if isTerm {
					hs = nd(15, hs, h)
				} else {
					hs = nd(16, hs, h)
				}
			}
			prod := 12
			if a == "@right" {
				prod = 13
			} else if a == "@none" {
				prod = 14
			}
			decls = nd(2, decls, nd(5, nd(prod, kw, hs), p.semiOpt()))
		case "IDENT":
			r := p.rule()
			if p.failed {
				return nil
			}
			semi := p.expect(";")
			if p.failed {
				return nil
			}
			decls = nd(2, decls, nd(6, r, semi))
		default:
			p.failed = true
			return nil
		}
	}
}

// refParse returns the reference tree, or nil and the index of the offending token
// (len(kinds) when the input merely ends too early).
func refParse(kinds []grammar.Terminal) (*rnode, int) {
	p := &rparser{k: kinds}
	t := p.spec()
	if p.failed || t == nil {
		return nil, p.i
	}
	return t, -1
}

// postorder lists the production indices of the interior nodes and the token indices of the
// leaves in the order a shift-reduce parser announces them.
func postorder(n *rnode, prods *[]int, leaves *[]int) {
	if n.prod < 0 {
		*leaves = append(*leaves, n.tok)
		return
	}
	for _, k := range n.kids {
		postorder(k, prods, leaves)
	}
	*prods = append(*prods, n.prod)
}

// events lists shifts (-1-tokenIndex) and reductions (production index) interleaved, in order.
func events(n *rnode, ev *[]int) {
	if n.prod < 0 {
		*ev = append(*ev, -1-n.tok)
		return
	}
	for _, k := range n.kids {
		events(k, ev)
	}
	*ev = append(*ev, n.prod)
}

func kindsOf(toks []lexer.Token) []grammar.Terminal {
	ks := make([]grammar.Terminal, len(toks))
	for i := range toks {
		ks[i] = toks[i].Terminal
	}
	return ks
}

// harnessLRParse: every token sequence of up to lrK tokens through the real Parse driver and
// the real ACTION/GOTO tables; acceptance, the callback sequence (C18) and the error position
// (C20) are compared with the reference parser.
func harnessLRParse() {
	k := verif.Len("k", 0, lrK)
	toks := symTokens(k)
	lx := &stubLexer{toks: toks, failAt: -1}
	lx.atEOF(k)
	p := &Parser{L: lx}
	var got []int
	err := p.Parse(
		func(t *lexer.Token) error {
			// the token callback receives the token just shifted
			idx := -1
			for i := range toks {
				if toks[i].Lexeme == t.Lexeme {
					idx = i
				}
			}
			verif.Assert(idx >= 0 && t.Pos == toks[idx].Pos && verif.StrEq(string(t.Terminal), string(toks[idx].Terminal)), "token callback: not one of the input tokens, unchanged")
			got = append(got, -1-idx)
			return nil
		},
		func(i int) error {
			got = append(got, i)
			return nil
		},
	)
	tree, bad := refParse(kindsOf(toks))
	if tree != nil {
		verif.Reach("accepted")
		verif.Assert(err == nil, "a sentence of the documented grammar is rejected")
		if err != nil {
			return
		}
		var want []int
		events(tree, &want)
		same := len(want) == len(got)
		for i := 0; same && i < len(want); i++ {
			same = want[i] == got[i]
		}
		verif.Assert(same, "callbacks are not the reverse rightmost derivation the documented precedence prescribes")
		verif.Assert(lx.requested == k+1, "the parser must read every token and the end marker exactly once")
		return
	}
	verif.Reach("rejected")
	verif.Assert(err != nil, "a token sequence that is not a sentence of the documented grammar is accepted")
	if err == nil {
		return
	}
	checkSyntaxError(err, toks, bad, lx)
}

// harnessLRBody: the same comparison with the tokens `grammar IDENT IDENT =` fixed in front of
// lrBodyK arbitrary tokens and a closing `;` : it reaches deeper into rule bodies, where the
// documented precedence and associativity decide the shape of the parse.
func harnessLRBody() {
	k := verif.Len("k", 0, lrBodyK)
	body := symTokens(k)
	fixed := []string{"grammar", "IDENT", "IDENT", "="}
	toks := make([]lexer.Token, 0, k+5)
	mk := func(kind string, i int) lexer.Token {
		return lexer.Token{Terminal: grammar.Terminal(kind), Lexeme: "f" + vitoa(i), Pos: lexer.Position{Filename: "f", Offset: 1000 + i, Line: 50 + i, Column: 3}}
	}
	for i, kd := range fixed {
		toks = append(toks, mk(kd, i))
	}
	toks = append(toks, body...)
	toks = append(toks, mk(";", 9))
	lx := &stubLexer{toks: toks, failAt: -1}
	p := &Parser{L: lx}
	var got []int
	err := p.Parse(
		func(t *lexer.Token) error {
			idx := -1
			for i := range toks {
				if toks[i].Lexeme == t.Lexeme {
					idx = i
				}
			}
			got = append(got, -1-idx)
			return nil
		},
		func(i int) error {
			got = append(got, i)
			return nil
		},
	)
	tree, bad := refParse(kindsOf(toks))
	if tree != nil {
		verif.Reach("accepted")
		verif.Assert(err == nil, "a sentence of the documented grammar is rejected")
		if err != nil {
			return
		}
		var want []int
		events(tree, &want)
		same := len(want) == len(got)
		for i := 0; same && i < len(want); i++ {
			same = want[i] == got[i]
		}
		verif.Assert(same, "callbacks are not the reverse rightmost derivation the documented precedence prescribes")
		return
	}
	verif.Reach("rejected")
	verif.Assert(err != nil, "a token sequence that is not a sentence of the documented grammar is accepted")
	if err == nil {
		return
	}
	checkSyntaxError(err, toks, bad, lx)
}

// lrLongShape builds a long sentence of the documented grammar: shape s repeated/nested n times.
func lrLongShape(s, n int) []string {
	out := []string{"grammar", "IDENT", ";"}
	rep := func(unit []string, times int) {
		for i := 0; i < times; i++ {
			out = append(out, unit...)
		}
	}
	switch s {
	case 0: // one rule with n+1 alternatives
		out = append(out, "IDENT", "=", "STRING")
		rep([]string{"|", "STRING"}, n)
		out = append(out, ";")
	case 1: // one rule with a concatenation of n symbols
		out = append(out, "IDENT", "=")
		rep([]string{"TOKEN"}, n)
		out = append(out, ";")
	case 2: // groups nested n deep
		out = append(out, "IDENT", "=")
		rep([]string{"("}, n)
		out = append(out, "IDENT")
		rep([]string{")"}, n)
		out = append(out, ";")
	case 3: // n rules
		rep([]string{"IDENT", "=", "STRING", ";"}, n)
	case 4: // a directive with n terminal handles
		out = append(out, "@left")
		rep([]string{"STRING"}, n)
		out = append(out, ";")
	case 5: // all four bracket kinds nested n/4 deep, with a trailing alternative bar at each level
		out = append(out, "IDENT", "=")
		rep([]string{"[", "{", "{{", "("}, n/4)
		out = append(out, "TOKEN")
		rep([]string{"|", ")", "}}", "}", "]"}, n/4)
		out = append(out, ";")
	case 6: // a directive with n rule handles
		out = append(out, "@right")
		rep([]string{"<", "IDENT", "=", "IDENT", "STRING", ">"}, n)
		out = append(out, ";")
	case 7: // n token definitions without semicolons
		rep([]string{"TOKEN", "=", "REGEX"}, n)
	case 8: // alternatives of concatenations inside a group, n times
		out = append(out, "IDENT", "=", "(")
		rep([]string{"STRING", "TOKEN", "|"}, n)
		out = append(out, "IDENT", ")", ";")
	}
	return out
}

const lrLongShapes = 9

// harnessLRLong: long sentences (sizes lrLongNs) of nine shapes - many alternatives, long
// concatenations, deep nesting, many declarations, many handles - with the kind of one token (near the
// start, in the middle or at the end) left arbitrary: acceptance, reduction order and error position must
// agree with the reference parser however long the input is.
func harnessLRLong() {
	s := verif.Pick("shape", lrLongShapes)
	n := lrLongNs[verif.Pick("size", len(lrLongNs))]
	kinds := lrLongShape(s, n)
	toks := make([]lexer.Token, len(kinds))
	for i, kd := range kinds {
		toks[i] = lexer.Token{Terminal: grammar.Terminal(kd), Lexeme: "t" + vitoa(i), Pos: lexer.Position{Filename: "f", Offset: 10 * i, Line: 1 + i/4, Column: 1 + 7*(i%4)}}
	}
	switch verif.Pick("where", 4) {
	case 1:
		toks[4].Terminal = grammar.Terminal(verif.Enum("t", lrTermNames...))
	case 2:
		toks[len(toks)/2].Terminal = grammar.Terminal(verif.Enum("t", lrTermNames...))
	case 3:
		toks[len(toks)-1].Terminal = grammar.Terminal(verif.Enum("t", lrTermNames...))
	}
	k := len(toks)
	lx := &stubLexer{toks: toks, failAt: -1}
	lx.atEOF(k)
	p := &Parser{L: lx}
	var got []int
	err := p.Parse(
		func(t *lexer.Token) error {
			got = append(got, -1)
			return nil
		},
		func(i int) error {
			got = append(got, i)
			return nil
		},
	)
	tree, bad := refParse(kindsOf(toks))
	if tree != nil {
		verif.Reach("accepted")
		verif.Assert(err == nil, "a (long) sentence of the documented grammar is rejected")
		if err != nil {
			return
		}
		var want []int
		events(tree, &want)
		same := len(want) == len(got)
		for i := 0; same && i < len(want); i++ {
			same = want[i] == got[i] || (want[i] < 0 && got[i] == -1)
		}
		verif.Assert(same, "callbacks are not the reverse rightmost derivation the documented precedence prescribes (long input)")
		verif.Assert(lx.requested == k+1, "the parser must read every token and the end marker exactly once")
		return
	}
	verif.Reach("rejected")
	verif.Assert(err != nil, "a (long) token sequence that is not a sentence of the documented grammar is accepted")
	if err == nil {
		return
	}
	checkSyntaxError(err, toks, bad, lx)
}
