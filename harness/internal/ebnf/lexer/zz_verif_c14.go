//go:build verif

package lexer

import (
	"io"

	"github.com/gardenbed/emerge/internal/verif"
)

// harnessC14Scan: arbitrary bytes (0x00..0xFF, invalid UTF-8 and NUL included) never crash or hang the
// scanner: within len+2 calls NextToken reports an error or the end of input.
func harnessC14Scan() {
	n := verif.Len("n", 0, c14N)
	text := verif.Bytes("b", n)
	l, err := New("f", &memReader{data: text})
	if err != nil {
		verif.Reach("constructor error")
		return
	}
	verif.Assert(l != nil, "success with a nil result")
	for k := 0; k <= n+1; k++ {
		_, err := l.NextToken()
		if err != nil {
			if err == io.EOF {
				verif.Reach("end of input")
			} else {
				verif.Assert(len(err.Error()) > 0, "an error without a description")
				verif.Reach("error")
			}
			return
		}
	}
	verif.Fail("the scanner did not finish within len+2 tokens")
}
