//go:build verif

package lexer

import (
	"io"
	"strings"

	"github.com/gardenbed/emerge/internal/verif"
)

// memReader delivers the text the way os.File on a regular file and strings.Reader do:
// it fills the caller's buffer as far as data is left and reports io.EOF only with n == 0.
type memReader struct {
	data []byte
	off  int
}

func (r *memReader) Read(p []byte) (int, error) {
	if r.off >= len(r.data) {
		return 0, io.EOF
	}
	n := copy(p, r.data[r.off:])
	r.off += n
	return n, nil
}

// refTok is one element of the reference token stream: kind "" marks the lexical error
// that ends the stream.
type refTok struct {
	kind       string
	start, end int // byte span in the text
	line, col  int // position of the first character (1-based)
}

// refScan tokenises text with the documented automaton (refDelta/refLabel are generated from
// the documentation): from each start it follows the longest run the automaton allows; a run
// that ends in a non-accepting state is a lexical error at the start of the run.
func refScan(text []byte, base, line, col int) []refTok {
	var out []refTok
	pos := base
	for pos < len(text) {
		q, i := 0, pos
		for i < len(text) {
			q2 := verif.Concretize(refDelta(q, rune(text[i])))
			if q2 == -1 {
				break
			}
			q = q2
			i++
		}
		lab := refLabel(q)
		if lab == "" {
			out = append(out, refTok{kind: "", start: pos, end: i, line: line, col: col})
			return out
		}
		if lab != "SKIP" {
			out = append(out, refTok{kind: lab, start: pos, end: i, line: line, col: col})
		}
		for j := pos; j < i; j++ {
			if text[j] == '\n' {
				line++
				col = 1
			} else {
				col++
			}
		}
		pos = i
	}
	return out
}

// checkStream drives the real scanner over the real two-buffer reader and compares what it
// returns, call by call, with the reference stream.
func checkStream(l *Lexer, text []byte, exp []refTok, what string) {
	for k := 0; k <= len(exp); k++ {
		tok, err := l.NextToken()
		if k == len(exp) {
			verif.Reach("stream-end")
			verif.Assert(err == io.EOF, what+": after the last token the scanner must report end of input")
			return
		}
		e := exp[k]
		if e.kind == "" {
			verif.Reach("lexical-error")
			verif.Assert(err != nil && err != io.EOF, what+": text that is not a token must be a lexical error")
			want := "f:" + itoa(e.line) + ":" + itoa(e.col) + ":"
			verif.Assert(strings.Contains(err.Error(), want), what+": the lexical error must name the position of the stray text ("+want+")")
			return
		}
		if err != nil {
			if e.kind == "TOKEN" && e.end-e.start == 1 {
				verif.Tag("KF:C05-one-letter-token")
			}
			verif.Fail(what + ": the scanner fails or stops where the documentation defines a token of kind " + e.kind)
			return
		}
		verif.Reach("token")
		verif.Assert(string(tok.Terminal) == e.kind, what+": wrong token kind, the documentation defines "+e.kind)
		lo, hi := e.start, e.end
		if e.kind == "STRING" || e.kind == "REGEX" {
			lo, hi = lo+1, hi-1
		}
		verif.Assert(tok.Lexeme == verif.String(text[lo:hi]), what+": lexeme of "+e.kind+" is not its source text")
		verif.Assert(tok.Pos.Filename == "f" && tok.Pos.Offset == e.start && tok.Pos.Line == e.line && tok.Pos.Column == e.col,
			what+": position of "+e.kind+" is not that of its first character")
	}
}

// harnessScanLoop: arbitrary text of up to scanN bytes (1..0x7F) through the real entry point
// lexer.New, the real NextToken loop and the real two-buffer reader.
func harnessScanLoop() {
	n := verif.Len("n", scanMinN, scanN)
	text := verif.Bytes("b", n)
	for i := range text {
		verif.Assume(verif.And(text[i] >= 1, text[i] <= 0x7F))
	}
	exp := refScan(text, 0, 1, 1)
	l, err := New("f", &memReader{data: text})
	if err != nil {
		// an empty file may be reported as end of input by the constructor already
		verif.Assert(n == 0 && err == io.EOF, "the scanner cannot be constructed for a non-empty text")
		return
	}
	checkStream(l, text, exp, "scan")
}

// harnessScanAccess: the same monitor on texts that begin with a shortest text leading the documented
// automaton into one of its states (every state in turn: keywords, their prefixes, open strings, patterns
// and comments) and continue with up to scanAccN arbitrary bytes - maximal munch and keyword/identifier
// boundaries are decided deep inside tokens, where short arbitrary texts do not reach.
func harnessScanAccess() {
	w := scanAccess[verif.Pick("state", len(scanAccess))]
	n := verif.Len("n", 0, scanAccN)
	sym := verif.Bytes("b", n)
	for i := range sym {
		verif.Assume(verif.And(sym[i] >= 1, sym[i] <= 0x7F))
	}
	text := append([]byte(w), sym...)
	exp := refScan(text, 0, 1, 1)
	l, err := New("f", &memReader{data: text})
	if err != nil {
		verif.Assert(len(text) == 0 && err == io.EOF, "the scanner cannot be constructed for a non-empty text")
		return
	}
	checkStream(l, text, exp, "scan")
}

// harnessScanPadded: the same monitor with the symbolic text placed behind a concrete padding
// (spaces, with a newline every 61 bytes) whose length sweeps the alignments of the shipped
// 4096-byte buffer halves, and followed by a concrete tail.
func harnessScanPadded() {
	pad := scanPads[verif.Pick("pad", len(scanPads))]
	tail := scanTails[verif.Pick("tail", len(scanTails))]
	n := verif.Len("n", 1, scanPadN)
	sym := verif.Bytes("b", n)
	for i := range sym {
		verif.Assume(verif.And(sym[i] >= 1, sym[i] <= 0x7F))
	}
	text := make([]byte, 0, pad+n+len(tail))
	for i := 0; i < pad; i++ {
		if i%61 == 60 {
			text = append(text, '\n')
		} else {
			text = append(text, ' ')
		}
	}
	text = append(text, sym...)
	text = append(text, tail...)
	exp := refScan(text, 0, 1, 1)
	l, err := New("f", &memReader{data: text})
	verif.Assert(err == nil, "the scanner cannot be constructed for a non-empty text")
	if err != nil {
		return
	}
	checkStream(l, text, exp, "padded scan (pad "+itoa(pad)+")")
}

// harnessScanLayout: one giant skipped element - a run of spaces, of tabs, of blank lines, one block
// comment, one line comment, or comments with tabs inside - of scanBigs[i] bytes in front of up to
// scanLayN arbitrary bytes and a tail: what is skipped, however long a single skipped lexeme is, must not
// change what follows it.
func harnessScanLayout() {
	size := scanBigs[verif.Pick("size", len(scanBigs))]
	style := verif.Pick("style", 6)
	tail := scanTails[verif.Pick("tail", len(scanTails))]
	n := verif.Len("n", 0, scanLayN)
	sym := verif.Bytes("b", n)
	for i := range sym {
		verif.Assume(verif.And(sym[i] >= 1, sym[i] <= 0x7F))
	}
	text := make([]byte, 0, size+n+len(tail)+8)
	fill := func(c byte, k int) {
		for i := 0; i < k; i++ {
			text = append(text, c)
		}
	}
	switch style {
	case 0:
		fill(' ', size)
	case 1:
		fill('\t', size)
	case 2:
		fill('\n', size)
	case 3:
		text = append(text, "/*"...)
		fill('c', size-4)
		text = append(text, "*/"...)
	case 4:
		text = append(text, "//"...)
		fill('c', size-3)
		text = append(text, '\n')
	case 5:
		for len(text)+12 <= size {
			text = append(text, "//\tx |\n/*\t*/"...)
		}
	}
	text = append(text, sym...)
	text = append(text, tail...)
	exp := refScan(text, 0, 1, 1)
	l, err := New("f", &memReader{data: text})
	verif.Assert(err == nil, "the scanner cannot be constructed for a non-empty text")
	if err != nil {
		return
	}
	checkStream(l, text, exp, "layout (style "+itoa(style)+", size "+itoa(size)+")")
}

// harnessScanInvalid: up to scanInvN arbitrary ASCII bytes, then one byte that cannot begin a UTF-8
// character (or a leading byte followed by an ASCII character), then a concrete tail.  The scanner returns
// the tokens that are complete before the bad byte, then an error that names the position of the bad byte
// (unless stray text earlier is an error of its own); it never returns a token that begins after it, and
// never reports a plain end of input.
func harnessScanInvalid() {
	n := verif.Len("n", 0, scanInvN)
	pre := verif.Bytes("b", n)
	for i := range pre {
		verif.Assume(verif.And(pre[i] >= 1, pre[i] <= 0x7F))
	}
	bad := verif.Byte("bad")
	verif.Assume(bad >= 0x80)
	// continuation bytes and F8..FF can never begin a character; a leading byte (C2..F4) followed by an ASCII byte cannot either
	tail := scanTails[verif.Pick("tail", len(scanTails))]
	text := append(append(append([]byte{}, pre...), bad), 'x')
	text = append(text, tail...)
	exp := refScan(pre, 0, 1, 1)
	// position of the bad byte
	line, col := 1, 1
	for _, c := range pre {
		if verif.ConcretizeByte(c) == '\n' {
			line++
			col = 1
		} else {
			col++
		}
	}
	ownError := false
	if len(exp) > 0 {
		last := exp[len(exp)-1]
		if last.kind == "" && last.end < len(pre) {
			ownError = true // stray text before the bad byte: that error comes first
		} else if last.end == len(pre) {
			exp = exp[:len(exp)-1] // the element the bad byte interrupts is not delivered
		}
	}
	l, err := New("f", &memReader{data: text})
	verif.Assert(err == nil, "the scanner cannot be constructed for a non-empty text")
	if err != nil {
		return
	}
	if ownError {
		checkStream(l, pre, exp, "scan before an invalid byte")
		return
	}
	for k := 0; k <= len(exp); k++ {
		tok, err := l.NextToken()
		if k == len(exp) {
			verif.Reach("invalid byte reached")
			verif.Assert(err != nil && err != io.EOF, "a byte that is not UTF-8 is passed over instead of being reported")
			if err == nil || err == io.EOF {
				return
			}
			want := "f:" + itoa(line) + ":" + itoa(col) + ":"
			verif.Assert(strings.Contains(err.Error(), want), "the error for a byte that is not UTF-8 must name its position ("+want+")")
			return
		}
		e := exp[k]
		if err != nil {
			if e.kind == "TOKEN" && e.end-e.start == 1 {
				verif.Tag("KF:C05-one-letter-token")
			}
			verif.Fail("the scanner fails before the invalid byte where the documentation defines a token of kind " + e.kind)
			return
		}
		verif.Assert(string(tok.Terminal) == e.kind && tok.Pos.Offset == e.start, "wrong token before an invalid byte, the documentation defines "+e.kind)
	}
}
