//go:build verif

package lexer

import (
	"github.com/moorara/algo/lexer"

	"github.com/gardenbed/emerge/internal/verif"
)

// stubBuf is an inputBuffer whose pending lexeme is fixed by the harness.
type stubBuf struct {
	lexeme string
	pos    lexer.Position
}

func (b *stubBuf) Next() (rune, error)              { return 0, nil }
func (b *stubBuf) Retract()                         {}
func (b *stubBuf) Lexeme() (string, lexer.Position) { return b.lexeme, b.pos }
func (b *stubBuf) Skip() lexer.Position             { return b.pos }

// implLabel is the observable label of a scanner state, taken from the real evalDFA:
// the token kind, "SKIP" for white space / newlines / comments, "" for a non-accepting state.
func implLabel(p int) string {
	l := &Lexer{in: &stubBuf{lexeme: "\"x\""}}
	tok := l.evalDFA(p)
	switch tok.Terminal {
	case ERR:
		return ""
	case WS, EOL, COMMENT:
		return "SKIP"
	}
	return string(tok.Terminal)
}

// harnessC05Bisim: one inductive step of the labelled bisimulation between the real
// advanceDFA/evalDFA and the reference automaton, for an arbitrary related pair and an
// arbitrary rune (all of int32).  refPairs, refDelta, refLabel are generated from the
// documentation on every run.
func harnessC05Bisim() {
	verif.Assert(refPairs[0][0] == 0 && refPairs[0][1] == 0, "the relation must contain the pair of start states")
	k := verif.Pick("pair", len(refPairs))
	p, q := refPairs[k][0], refPairs[k][1]
	il, rl := implLabel(p), refLabel(q)
	if il != rl {
		if il == "" && rl == "TOKEN" && p == advanceDFA(0, 'A') {
			verif.Tag("KF:C05-one-letter-token")
		}
		verif.Fail("scanner state " + itoa(p) + " is labelled '" + il + "' but the documented automaton says '" + rl + "'")
	}
	r := verif.Rune("r")
	p2 := advanceDFA(p, r)
	q2 := refDelta(q, r)
	ok := verif.And(p2 == errorState, q2 == -1)
	for _, pr := range refPairs {
		ok = verif.Or(ok, verif.And(p2 == pr[0], q2 == pr[1]))
	}
	verif.Reach("bisim-step")
	verif.Assert(ok, "from scanner state "+itoa(p)+" the real transition and the documented one disagree")
}

func itoa(n int) string {
	if n == 0 {
		return "0"
	}
	neg := n < 0
	if neg {
		n = -n
	}
	s := ""
	for n > 0 {
		s = string(rune('0'+n%10)) + s
		n /= 10
	}
	if neg {
		s = "-" + s
	}
	return s
}

// harnessC05Lexeme: for every STRING or REGEX token text of up to scanLexN bytes (a symbolic
// lexeme accepted as such by the documented automaton), the real evalDFA returns the text
// between the delimiters, nothing more and nothing less.
func harnessC05Lexeme() {
	n := verif.Len("n", 2, scanLexN)
	b := verif.Bytes("x", n)
	verif.Assume(verif.Or(b[0] == '"', b[0] == '/'))
	q, p := 0, 0
	for i := range b {
		verif.Assume(verif.And(b[i] >= 1, b[i] <= 0x7F))
		q = verif.Concretize(refDelta(q, rune(b[i])))
		verif.Assume(q != -1)
		p = verif.Concretize(advanceDFA(p, rune(b[i])))
	}
	code := refLabelCode(q)
	verif.Assume(verif.Or(code == refCodeSTRING, code == refCodeREGEX))
	l := &Lexer{in: &stubBuf{lexeme: verif.String(b)}}
	tok := l.evalDFA(p)
	verif.Reach("lexeme")
	want := "STRING"
	if verif.Concretize(code) == refCodeREGEX {
		want = "REGEX"
	}
	verif.Assert(string(tok.Terminal) == want, "a "+want+" text is evaluated as another kind")
	verif.Assert(tok.Lexeme == verif.String(b[1:n-1]), "the lexeme of a "+want+" is not exactly the text between its delimiters")
}
