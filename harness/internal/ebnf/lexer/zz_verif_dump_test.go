//go:build verif

package lexer

import (
	"fmt"
	"testing"
)

// TestVerifDumpDFA prints the real transition function on a finite sample.  The output is
// only a hint from which the candidate bisimulation relation is computed; the relation is
// then checked by the solver against the real advanceDFA for every rune.
func TestVerifDumpDFA(t *testing.T) {
	runes := []rune{}
	for c := rune(0); c < 0x180; c++ {
		runes = append(runes, c)
	}
	runes = append(runes, 0x7FF, 0x800, 0xFFFF, 0x10000, 0x10FFFF)
	for s := 0; s <= 80; s++ {
		for _, c := range runes {
			n := advanceDFA(s, c)
			if n != errorState {
				fmt.Printf("DFA %d %d %d\n", s, c, n)
			}
		}
	}
}
