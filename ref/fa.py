"""Independent finite-automata toolkit used by the references (no emerge code involved).

Alphabet = integers (code points).  Character sets are sorted lists of disjoint closed
intervals.  Regular expressions are tuples:
  ('eps',) ('set', intervals) ('cat', [r...]) ('alt', [r...]) ('star', r) ('plus', r) ('opt', r)
"""

MAXCP = 0x10FFFF


def norm(iv):
    iv = sorted((a, b) for a, b in iv if a <= b)
    out = []
    for a, b in iv:
        if out and a <= out[-1][1] + 1:
            out[-1] = (out[-1][0], max(out[-1][1], b))
        else:
            out.append((a, b))
    return out


def chars(s):
    return norm([(ord(c), ord(c)) for c in s])


def rng(a, b):
    return [(a, b)]


def union(*sets):
    out = []
    for s in sets:
        out += s
    return norm(out)


def complement(iv, lo=0, hi=MAXCP):
    out = []
    cur = lo
    for a, b in norm(iv):
        if a > cur:
            out.append((cur, a - 1))
        cur = max(cur, b + 1)
    if cur <= hi:
        out.append((cur, hi))
    return out


def minus(a, b):
    return intersect(a, complement(b))


def intersect(a, b):
    out = []
    for x, y in a:
        for u, v in b:
            lo, hi = max(x, u), min(y, v)
            if lo <= hi:
                out.append((lo, hi))
    return norm(out)


def contains(iv, c):
    return any(a <= c <= b for a, b in iv)


def lit(s):
    return ('cat', [('set', chars(c)) for c in s])


class NFA:
    def __init__(self):
        self.n = 0
        self.eps = {}
        self.tr = {}  # state -> list of (intervals, target)

    def new(self):
        self.n += 1
        return self.n - 1

    def add_eps(self, a, b):
        self.eps.setdefault(a, set()).add(b)

    def add(self, a, iv, b):
        self.tr.setdefault(a, []).append((iv, b))


def thompson(nfa, r):
    k = r[0]
    s, t = nfa.new(), nfa.new()
    if k == 'eps':
        nfa.add_eps(s, t)
    elif k == 'set':
        if r[1]:
            nfa.add(s, r[1], t)
    elif k == 'cat':
        cur = s
        for x in r[1]:
            a, b = thompson(nfa, x)
            nfa.add_eps(cur, a)
            cur = b
        nfa.add_eps(cur, t)
    elif k == 'alt':
        for x in r[1]:
            a, b = thompson(nfa, x)
            nfa.add_eps(s, a)
            nfa.add_eps(b, t)
    elif k in ('star', 'plus', 'opt'):
        a, b = thompson(nfa, r[1])
        nfa.add_eps(s, a)
        nfa.add_eps(b, t)
        if k in ('star', 'opt'):
            nfa.add_eps(s, t)
        if k in ('star', 'plus'):
            nfa.add_eps(b, a)
    else:
        raise ValueError(k)
    return s, t


def closure(nfa, states):
    st = list(states)
    seen = set(states)
    while st:
        x = st.pop()
        for y in nfa.eps.get(x, ()):
            if y not in seen:
                seen.add(y)
                st.append(y)
    return frozenset(seen)


class DFA:
    """trans: dict state -> list of ((lo,hi), target), intervals disjoint and sorted;
    label: dict state -> label (absent = non accepting); start = 0."""

    def __init__(self):
        self.trans = {}
        self.label = {}
        self.n = 0

    def step(self, q, c):
        for (a, b), t in self.trans.get(q, ()):
            if a <= c <= b:
                return t
        return None

    def run(self, word):
        q = 0
        for c in word:
            q = self.step(q, c)
            if q is None:
                return None
        return q


def partition(sets):
    """Split the code-point range into maximal intervals on which membership in every set is constant."""
    cuts = {0, MAXCP + 1}
    for iv in sets:
        for a, b in iv:
            cuts.add(a)
            cuts.add(b + 1)
    cuts = sorted(cuts)
    return [(cuts[i], cuts[i + 1] - 1) for i in range(len(cuts) - 1)]


def determinize(nfa, start, finals):
    """finals: dict nfa_state -> (priority, label); lower priority wins."""
    d = DFA()
    s0 = closure(nfa, [start])
    ids = {s0: 0}
    work = [s0]
    d.n = 1

    def lab(S):
        best = None
        for x in S:
            if x in finals and (best is None or finals[x][0] < best[0]):
                best = finals[x]
        return best

    l0 = lab(s0)
    if l0 is not None:
        d.label[0] = l0[1]
    while work:
        S = work.pop()
        sid = ids[S]
        sets = [iv for x in S for iv, _ in nfa.tr.get(x, ())]
        if not sets:
            continue
        out = []
        for a, b in partition(sets):
            T = set()
            for x in S:
                for iv, y in nfa.tr.get(x, ()):
                    if contains(iv, a):
                        T.add(y)
            if not T:
                continue
            T = closure(nfa, T)
            if T not in ids:
                ids[T] = d.n
                d.n += 1
                work.append(T)
                l = lab(T)
                if l is not None:
                    d.label[ids[T]] = l[1]
            out.append(((a, b), ids[T]))
        # merge adjacent intervals with the same target
        merged = []
        for (a, b), t in out:
            if merged and merged[-1][1] == t and merged[-1][0][1] + 1 == a:
                merged[-1] = ((merged[-1][0][0], b), t)
            else:
                merged.append(((a, b), t))
        d.trans[sid] = merged
    return d


def trim_minimize(d):
    """Remove states that cannot reach a labelled state, then merge equivalent states (Moore)."""
    # liveness
    rev = {}
    for q, tr in d.trans.items():
        for _, t in tr:
            rev.setdefault(t, set()).add(q)
    live = set(d.label)
    st = list(live)
    while st:
        x = st.pop()
        for y in rev.get(x, ()):
            if y not in live:
                live.add(y)
                st.append(y)
    if 0 not in live:
        e = DFA()
        e.n = 1
        return e
    states = sorted(live)
    # partition refinement
    cls = {q: ('L', d.label.get(q)) for q in states}
    while True:
        allsets = []
        for q in states:
            allsets.append([iv for iv, t in d.trans.get(q, ()) if t in live])
        parts = partition(allsets)
        sig = {}
        for q in states:
            row = []
            for a, b in parts:
                t = d.step(q, a)
                row.append(cls[t] if (t is not None and t in live) else None)
            # compress
            sig[q] = (cls[q], tuple(row))
        ids = {}
        newcls = {}
        for q in states:
            newcls[q] = ids.setdefault(sig[q], len(ids))
        if len(set(newcls.values())) == len(set(cls.values())):
            cls = newcls
            break
        cls = newcls
    # renumber with start = 0, BFS order
    order = {}
    rep = {}
    for q in states:
        rep.setdefault(cls[q], q)
    m = DFA()
    queue = [cls[0]]
    order[cls[0]] = 0
    while queue:
        c = queue.pop(0)
        q = rep[c]
        out = []
        for (a, b), t in d.trans.get(q, ()):
            if t not in live:
                continue
            tc = cls[t]
            if tc not in order:
                order[tc] = len(order)
                queue.append(tc)
            if out and out[-1][1] == order[tc] and out[-1][0][1] + 1 == a:
                out[-1] = ((out[-1][0][0], b), order[tc])
            else:
                out.append(((a, b), order[tc]))
        m.trans[order[c]] = out
        if q in d.label:
            m.label[order[c]] = d.label[q]
    m.n = len(order)
    return m


def scanner_dfa(token_defs):
    """token_defs: list of (label, regex) in priority order (earlier wins).  Returns the trimmed minimal DFA."""
    nfa = NFA()
    start = nfa.new()
    finals = {}
    for pri, (label, r) in enumerate(token_defs):
        a, b = thompson(nfa, r)
        nfa.add_eps(start, a)
        finals[b] = (pri, label)
    return trim_minimize(determinize(nfa, start, finals))


def regex_dfa(r, label=True):
    return scanner_dfa([(label, r)])
