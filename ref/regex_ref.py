"""Reference meaning of emerge's pattern language (docs/5-definitions.md, "Regular Expression")
and generators of pattern corpora.  No emerge code is involved: patterns are generated as trees,
printed with the documented concrete syntax, and their meaning is defined on the tree.

Universe for `.` and for negations: 7-bit ASCII without NUL (as property C02 states).
Anchors (`^`, `$`) are not generated: the documentation gives them no meaning for a token automaton.
Unicode categories (\\p{..}) are not generated: docs/6-design.md lists them as not included.
"""
import itertools
import random

from fa import norm, union, complement, intersect, rng, chars, contains

U_LO, U_HI = 1, 0x7F
UNIVERSE = [(U_LO, U_HI)]

CLASSES = {
    r'\s': chars(' \t\n\r\f'),
    r'\d': rng(0x30, 0x39),
    r'\w': union(rng(0x30, 0x39), rng(0x41, 0x5A), chars('_'), rng(0x61, 0x7A)),
}
ACLASSES = {
    '[:blank:]': chars(' \t'),
    '[:space:]': chars(' \t\n\r\f\v'),
    '[:digit:]': rng(0x30, 0x39),
    '[:xdigit:]': union(rng(0x30, 0x39), rng(0x41, 0x46), rng(0x61, 0x66)),
    '[:upper:]': rng(0x41, 0x5A),
    '[:lower:]': rng(0x61, 0x7A),
    '[:alpha:]': union(rng(0x41, 0x5A), rng(0x61, 0x7A)),
    '[:alnum:]': union(rng(0x30, 0x39), rng(0x41, 0x5A), rng(0x61, 0x7A)),
    '[:word:]': union(rng(0x30, 0x39), rng(0x41, 0x5A), chars('_'), rng(0x61, 0x7A)),
    '[:ascii:]': UNIVERSE,
}
ESCAPED = '\\|.?*+()[]{}$'


def neg(iv):
    return intersect(complement(iv), UNIVERSE)


def class_set(name):
    if name in CLASSES:
        return CLASSES[name]
    return neg(CLASSES[name.lower()])  # \S \D \W


# ---- constructors ------------------------------------------------------------------------

def lit(c, form='auto'):
    cp = c if isinstance(c, int) else ord(c)
    return ('lit', cp, form)


def q(item, lo, hi, lazy=False, form=None):
    if form is None:
        form = {(0, 1): '?', (0, None): '*', (1, None): '+'}.get((lo, hi))
        if form is None:
            form = '{n}' if hi == lo else ('{n,}' if hi is None else '{n,m}')
    return ('q', item, lo, hi, lazy, form)


# ---- printing ------------------------------------------------------------------------------

def print_lit(n, in_bracket=False):
    _, cp, form = n
    if form == 'x2':
        return '\\x%02X' % cp
    if form == 'x4':
        return '\\x%04X' % cp
    if form in ('x5', 'x6', 'x7', 'x8'):
        return '\\x%0*X' % (int(form[1]), cp)
    ch = chr(cp)
    if form == 'esc':
        return '\\' + ch
    if form == 'raw':
        return ch
    if cp < 0x20 or cp > 0x7E:
        return ('\\x%02X' % cp) if cp < 0x100 else ('\\x%04X' % cp)
    if ch in ESCAPED:
        return '\\' + ch
    if ch == '^' or (in_bracket and ch in '-:'):
        # "^" is the start-of-string marker at the head of a pattern and the negation mark of a
        # bracket group; "-" and ":" have their own roles inside brackets: use the \xHH form
        return '\\x%02X' % cp
    return ch


def pr(n):
    k = n[0]
    if k == 'lit':
        return print_lit(n)
    if k == 'any':
        return '.'
    if k in ('class', 'aclass'):
        return n[1]
    if k == 'bracket':
        s = '[' + ('^' if n[1] else '')
        for it in n[2]:
            if it[0] == 'range':
                s += print_lit(it[1], True) + '-' + print_lit(it[2], True)
            elif it[0] == 'lit':
                s += print_lit(it, True)
            else:
                s += it[1]
        return s + ']'
    if k == 'grp':
        return '(' + pr(n[1]) + ')'
    if k == 'cat':
        return ''.join(pr(x) for x in n[1])
    if k == 'alt':
        return '|'.join(pr(x) for x in n[1])
    if k == 'q':
        _, item, lo, hi, lazy, form = n
        if form in '?*+':
            s = form
        elif form == '{n}':
            s = '{%d}' % lo
        elif form == '{n,}':
            s = '{%d,}' % lo
        else:
            s = '{%d,%d}' % (lo, hi)
        return pr(item) + s + ('?' if lazy else '')
    raise ValueError(k)


# ---- character sets ----------------------------------------------------------------------

def charset(n):
    """Documented set of a single-character construct."""
    k = n[0]
    if k == 'lit':
        return [(n[1], n[1])]
    if k == 'any':
        return UNIVERSE
    if k == 'class':
        return class_set(n[1])
    if k == 'aclass':
        return ACLASSES[n[1]]
    if k == 'bracket':
        s = []
        for it in n[2]:
            if it[0] == 'range':
                s = union(s, [(it[1][1], it[2][1])])
            else:
                s = union(s, charset(it))
        return neg(s) if n[1] else norm(s)
    raise ValueError(k)


def is_set(n):
    return n[0] in ('lit', 'any', 'class', 'aclass', 'bracket')


def impl_set_has_nul(n):
    """Known finding C02-nul-epsilon: constructs whose automaton is built from rune class tables
    that include U+0000 (the automata library's epsilon): `.`, negated classes and groups,
    [:ascii:], \\x00."""
    k = n[0]
    if k == 'any':
        return True
    if k == 'class':
        return n[1] in (r'\S', r'\D', r'\W')
    if k == 'aclass':
        return n[1] == '[:ascii:]'
    if k == 'lit':
        return n[1] == 0
    if k == 'bracket':
        if n[1]:
            return not any(impl_item_has_nul(it) for it in n[2])
        return any(impl_item_has_nul(it) for it in n[2])
    return False


def impl_item_has_nul(it):
    if it[0] == 'range':
        return it[1][1] == 0
    return impl_set_has_nul(it)


def any_node(n, pred):
    if pred(n):
        return True
    k = n[0]
    if k in ('cat', 'alt'):
        return any(any_node(x, pred) for x in n[1])
    if k == 'grp':
        return any_node(n[1], pred)
    if k == 'q':
        return any_node(n[1], pred)
    return False


def code_points(n, acc=None):
    """Explicit code points outside 7-bit ASCII mentioned by the pattern."""
    acc = set() if acc is None else acc
    k = n[0]
    if k == 'lit' and n[1] > 0x7F:
        acc.add(n[1])
    elif k == 'bracket':
        for it in n[2]:
            if it[0] == 'range':
                for e in (it[1], it[2]):
                    if e[1] > 0x7F:
                        acc.add(e[1])
            else:
                code_points(it, acc)
    elif k in ('cat', 'alt'):
        for x in n[1]:
            code_points(x, acc)
    elif k in ('grp', 'q'):
        code_points(n[1], acc)
    return acc


# ---- concrete matcher (used for replay and for validating the SMT encoding) ----------------

def matches(n, w, nul_quirk=False):
    """Does pattern tree n match the whole word w (list of code points)?  Memoised span matcher."""
    L = len(w)
    memo = {}

    def m(x, i, j):
        key = (id(x), i, j)
        if key in memo:
            return memo[key]
        memo[key] = False
        k = x[0]
        if is_set(x):
            r = (j == i + 1 and contains(charset(x), w[i])) or (nul_quirk and j == i and impl_set_has_nul(x))
        elif k == 'grp':
            r = m(x[1], i, j)
        elif k == 'alt':
            r = any(m(y, i, j) for y in x[1])
        elif k == 'cat':
            r = cat(x[1], 0, i, j)
        elif k == 'q':
            r = rep(x[1], x[2], x[3], i, j)
        else:
            raise ValueError(k)
        memo[key] = r
        return r

    def cat(items, idx, i, j):
        if idx == len(items):
            return i == j
        if idx == len(items) - 1:
            return m(items[idx], i, j)
        return any(m(items[idx], i, k) and cat(items, idx + 1, k, j) for k in range(i, j + 1))

    def rep(item, lo, hi, i, j):
        # number of repetitions c with lo <= c <= hi matching w[i:j]
        # dynamic programme over (position, count capped)
        cap = (hi if hi is not None else max(lo, 0) + (j - i) + 1)
        reach = {i: {0}}
        frontier = [(i, 0)]
        seen = {(i, 0)}
        while frontier:
            p, c = frontier.pop()
            if c >= cap:
                continue
            for k in range(p, j + 1):
                if m(item, p, k):
                    c2 = c + 1
                    if hi is None and c2 > lo + (j - i) + 1:
                        continue
                    if (k, c2) not in seen:
                        seen.add((k, c2))
                        frontier.append((k, c2))
        for (p, c) in seen:
            if p == j and c >= lo and (hi is None or c <= hi):
                return True
        return False

    return m(n, 0, L)


# ---- corpora ------------------------------------------------------------------------------------

ATOMS_SMALL = [lit('a'), lit('b')]


def single_items():
    """Every class, escape form and bracket item individually."""
    out = [('any',)]
    out += [('class', c) for c in (r'\s', r'\S', r'\d', r'\D', r'\w', r'\W')]
    out += [('aclass', c) for c in ACLASSES]
    out += [lit(c, 'esc') for c in ESCAPED]
    out += [lit(c) for c in 'aZ09_-^/:,<>=!~ "\'#%&;@`']
    out += [lit(0x41, 'x2'), lit(0x7E, 'x2'), lit(0x09, 'x2'), lit(0x0A, 'x2'), lit(0x0041, 'x4'), lit(0x00E9, 'x4'), lit(0x0100, 'x4'), lit(0x20AC, 'x4')]
    br = []
    br += [('bracket', False, [lit('a')]), ('bracket', True, [lit('a')]), ('bracket', False, [lit('a'), lit('b')]),
           ('bracket', False, [('range', lit('a'), lit('c'))]), ('bracket', True, [('range', lit('a'), lit('c'))]),
           ('bracket', False, [('range', lit('a'), lit('a'))]),
           ('bracket', False, [('range', lit('0'), lit('9')), lit('_'), ('range', lit('A'), lit('F'))]),
           ('bracket', False, [('class', r'\d')]), ('bracket', True, [('class', r'\d')]), ('bracket', False, [('class', r'\D')]),
           ('bracket', False, [('class', r'\s'), lit('x')]), ('bracket', True, [('class', r'\w')]),
           ('bracket', False, [('aclass', '[:alpha:]')]), ('bracket', True, [('aclass', '[:alpha:]')]), ('bracket', False, [('aclass', '[:digit:]'), ('aclass', '[:upper:]')]),
           ('bracket', False, [lit(0x21, 'x2'), ('range', lit(0x23, 'x2'), lit(0x5B, 'x2')), ('range', lit(0x5D, 'x2'), lit(0x7E, 'x2'))]),
           ('bracket', False, [lit(0x09, 'x2'), lit(0x0A, 'x2'), lit(0x0D, 'x2'), lit(0x20, 'x2')]),
           ('bracket', False, [lit('.', 'esc'), lit('*', 'esc')]), ('bracket', False, [lit(']', 'esc'), lit('[', 'esc')]),
           ('bracket', False, [lit(0x00E9, 'x4')]), ('bracket', False, [lit('a'), lit(0x0100, 'x4')]), ('bracket', False, [('range', lit(0x00E0, 'x4'), lit(0x00E9, 'x4'))]),
           ('bracket', True, [lit(0x00E9, 'x4')])]
    # the ends of the universe (0x01, 0x7F) and their neighbours, positively and negated, alone and as range ends
    for cp in (0x01, 0x02, 0x7E, 0x7F):
        br += [('bracket', False, [lit(cp, 'x2')]), ('bracket', True, [lit(cp, 'x2')])]
    br += [('bracket', True, [('range', lit(0x20, 'x2'), lit(0x7F, 'x2'))]), ('bracket', False, [('range', lit(0x7E, 'x2'), lit(0x7F, 'x2'))]),
           ('bracket', True, [('range', lit(0x01, 'x2'), lit(0x1F, 'x2')), lit(0x7F, 'x2')]), ('bracket', True, [('range', lit(0x01, 'x2'), lit(0x7E, 'x2'))]),
           ('bracket', True, [('class', r'\D')]), ('bracket', True, [('class', r'\S')]), ('bracket', True, [('class', r'\W')]), ('bracket', True, [('aclass', '[:ascii:]')]),
           ('bracket', False, [('range', lit(0x7F, 'x2'), lit(0x0080, 'x4'))]), ('bracket', False, [lit(0x0080, 'x4')]), ('bracket', True, [lit(0x0080, 'x4'), lit('a')])]
    out += [lit(0x7F, 'x2'), lit(0x01, 'x2'), lit(0x0080, 'x4')]
    # unicode_char = "\\x" hex_digit{4,8}: every length, below and beyond the basic plane, zero-padded
    out += [lit(0x1F600, 'x5'), lit(0x00041, 'x5'), lit(0x10FFFF, 'x6'), lit(0x00263A, 'x6'), lit(0x001F600, 'x7'), lit(0x000004A, 'x7'),
            lit(0x0001F600, 'x8'), lit(0x0000004A, 'x8'), lit(0x0010FFFF, 'x8')]
    br += [('bracket', False, [lit(0x0000263A, 'x8'), lit('x')]), ('bracket', False, [('range', lit(0x00041, 'x5'), lit(0x000043, 'x6'))]),
           ('bracket', True, [lit(0x001F600, 'x7')])]
    return out + br


def quantifier_forms(max_n=3):
    forms = [(0, 1), (0, None), (1, None)]
    for n in range(0, max_n + 1):
        forms.append((n, n))
        forms.append((n, None))
        for m in range(n, max_n + 1):
            forms.append((n, m))
    seen, out = set(), []
    for lo, hi in forms:
        for form in ('sym', 'range'):
            if form == 'sym' and (lo, hi) not in ((0, 1), (0, None), (1, None)):
                continue
            f = {(0, 1): '?', (0, None): '*', (1, None): '+'}[(lo, hi)] if form == 'sym' else ('{n}' if hi == lo else '{n,}' if hi is None else '{n,m}')
            if (lo, hi, f) in seen:
                continue
            seen.add((lo, hi, f))
            out.append((lo, hi, f))
    return out


def trees(size, atoms):
    """All pattern trees with exactly `size` nodes over the given atoms:
    atom (1) | grp(t) (1+) | q(item) (1+) | cat(t1,t2) (1+) | alt(t1,t2) (1+)."""
    memo = {}

    def gen(s):
        if s in memo:
            return memo[s]
        out = []
        if s == 1:
            out = list(atoms)
        else:
            for t in gen(s - 1):
                out.append(('grp', t))
                if is_set(t) or t[0] == 'grp':
                    for lo, hi, lazy in ((0, 1, False), (0, None, False), (1, None, False), (0, None, True), (2, 2, False), (1, 2, False), (0, 2, False), (2, None, False), (0, 0, False)):
                        out.append(q(t, lo, hi, lazy))
            for a in range(1, s - 1):
                b = s - 1 - a
                for x in gen(a):
                    for y in gen(b):
                        if x[0] != 'alt' and y[0] != 'alt':
                            xs = x[1] if x[0] == 'cat' else [x]
                            ys = y[1] if y[0] == 'cat' else [y]
                            if x[0] != 'cat':  # canonical: left-nested cats are produced once
                                out.append(('cat', xs + ys))
                        if x[0] != 'alt':
                            ys = y[1] if y[0] == 'alt' else [y]
                            xx = x
                            out.append(('alt', [xx] + ys))
        memo[s] = out
        return out

    return gen(size)


def normalise(n):
    """Make the tree printable unambiguously: an alt inside a cat or under a quantifier needs a group."""
    k = n[0]
    if k == 'cat':
        items = []
        for x in n[1]:
            x = normalise(x)
            if x[0] == 'alt':
                x = ('grp', x)
            items.append(x)
        return ('cat', items)
    if k == 'alt':
        return ('alt', [normalise(x) for x in n[1]])
    if k == 'grp':
        return ('grp', normalise(n[1]))
    if k == 'q':
        item = normalise(n[1])
        if not (is_set(item) or item[0] == 'grp'):
            item = ('grp', item)
        return ('q', item) + n[2:]
    return n


def random_tree(rnd, depth, atoms):
    if depth == 0 or rnd.random() < 0.25:
        return rnd.choice(atoms)
    c = rnd.random()
    if c < 0.35:
        return ('cat', [random_tree(rnd, depth - 1, atoms) for _ in range(rnd.randint(2, 3))])
    if c < 0.6:
        return ('alt', [random_tree(rnd, depth - 1, atoms) for _ in range(rnd.randint(2, 3))])
    if c < 0.7:
        return ('grp', random_tree(rnd, depth - 1, atoms))
    lo = rnd.choice([0, 0, 1, 1, 2, 3])
    hi = rnd.choice([None, lo, lo + 1, lo + 2])
    return q(random_tree(rnd, depth - 1, atoms), lo, hi, rnd.random() < 0.2)


def positions(n):
    """Estimate of the number of character positions the direct construction creates (it expands
    a character set into one position per character and a counted repetition into copies)."""
    k = n[0]
    if is_set(n):
        return sum(hi - lo + 1 for lo, hi in charset(n)) if k != 'lit' else 1
    if k == 'grp':
        return positions(n[1])
    if k in ('cat', 'alt'):
        return sum(positions(x) for x in n[1])
    if k == 'q':
        _, item, lo, hi, lazy, form = n
        return positions(item) * (hi if hi is not None else lo + 1) + 1
    return 1


def corpus(tier, seed=0):
    """Returns a list of (tree, text) without duplicates of text."""
    thorough = tier == 'thorough'
    out, seen = [], set()

    def add(t):
        t = normalise(t)
        s = pr(t)
        if s not in seen:
            seen.add(s)
            out.append((t, s))

    for s in range(1, (6 if thorough else 4) + 1):
        for t in trees(s, ATOMS_SMALL):
            add(t)
    items = single_items()
    for it in items:
        add(it)
        add(('cat', [lit('a'), it, lit('b')]))
        add(q(it, 0, None))
        add(q(it, 1, 2))
        add(('alt', [it, lit('a')]))
    for lo, hi, form in quantifier_forms(3):
        for body in (lit('a'), ('grp', ('alt', [lit('a'), ('cat', [lit('b'), lit('b')])])), ('grp', q(lit('a'), 0, 1)), ('grp', ('alt', [lit('a'), q(lit('b'), 0, None)])), ('bracket', False, [lit('a'), lit('b')])):
            for lazy in (False, True):
                t = q(body, lo, hi, lazy, form)
                add(t)
                add(('cat', [t, lit('c')]))
                add(('cat', [lit('c'), t]))
    # nullable neighbours (C10's subject)
    A, B, C = lit('a'), lit('b'), lit('c')
    for t in [('cat', [q(A, 0, None), q(B, 0, None), C]), ('cat', [q(A, 0, 1), q(B, 0, 1), C]), ('cat', [('grp', ('cat', [q(A, 0, None), q(B, 0, None)])), C]),
              ('cat', [A, q(B, 0, 1), q(C, 0, 1)]), ('cat', [q(A, 0, 1), q(B, 0, 1), q(C, 0, 1)]), q(('grp', ('cat', [q(A, 0, 1), q(B, 0, 1)])), 0, None),
              ('cat', [q(A, 0, 0), B]), ('cat', [A, q(B, 0, 0)]), q(A, 0, 0), q(A, 0, None, True), ('cat', [q(('grp', ('alt', [A, q(B, 0, None)])), 2, 3), C])]:
        add(t)
    rnd = random.Random(seed)
    atoms = ATOMS_SMALL + [lit('c'), ('class', r'\d'), ('bracket', False, [('range', lit('a'), lit('c'))]), ('bracket', True, [lit('a')]), ('any',)]
    budget = 700 if thorough else 350
    for _ in range(3000 if thorough else 300):
        t = random_tree(rnd, rnd.randint(2, 4), atoms)
        if positions(t) <= budget:  # larger ones take the direct construction minutes each
            add(t)
    return out
