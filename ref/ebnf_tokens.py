"""Reference scanner automaton of emerge's EBNF language, transcribed from the documentation.

Sources:
  docs/5-definitions.md, section "Tokens" (the 22 rows of the token table);
  docs/6-design.md, "Lexer Design": white space = space/tab runs, newline = \\n/\\r runs,
    `//` comment to the end of the line, `/* */` comment, "Empty comments // and /**/ are
    allowed", "The empty string and empty regular expression // are not allowed";
  property C05: comments end at the FIRST `*/`; keywords win over identifiers.

Deliberate readings where the sources disagree (recorded in DESIGN.md section 6):
  * TOKEN is `[A-Z][0-9A-Z_]*` as the token table says (docs/6-design.md's automaton makes a
    one-letter TOKEN an error);
  * a `/* */` comment ends at the first `*/`, so `**/` closes it;
  * `//` and `/*` always start a comment (the documented automaton, and "empty regular
    expression is not allowed"): a REGEX is the token table's pattern minus the strings that
    begin with `//` or `/*`.
"""
from fa import *

SKIP = 'SKIP'

UP = rng(0x41, 0x5A)
LOW = rng(0x61, 0x7A)
DIG = rng(0x30, 0x39)
US = chars('_')


def _set(iv):
    return ('set', norm(iv))


def token_defs():
    kw = [('=', '='), (';', ';'), ('|', '|'), ('(', '('), (')', ')'), ('[', '['), (']', ']'),
          ('{', '{'), ('}', '}'), ('{{', '{{'), ('}}', '}}'), ('<', '<'), ('>', '>'),
          ('@left', '@left'), ('@right', '@right'), ('@none', '@none'), ('grammar', 'grammar')]
    defs = [(name, lit(text)) for name, text in kw]
    defs.append(('PREDEF', ('cat', [_set(chars('$')), _set(UP), ('star', _set(union(DIG, UP, US)))])))
    defs.append(('IDENT', ('cat', [_set(LOW), ('star', _set(union(DIG, LOW, US)))])))
    defs.append(('TOKEN', ('cat', [_set(UP), ('star', _set(union(DIG, UP, US)))])))
    # STRING = "([\x21\x23-\x5B\x5D-\x7E]|\\[\x21-\x7E])+"
    s_plain = union(rng(0x21, 0x21), rng(0x23, 0x5B), rng(0x5D, 0x7E))
    s_item = ('alt', [_set(s_plain), ('cat', [_set(chars('\\')), _set(rng(0x21, 0x7E))])])
    defs.append(('STRING', ('cat', [_set(chars('"')), ('plus', s_item), _set(chars('"'))])))
    # REGEX = /([\x20-\x2E\x30-\x5B\x5D-\x7E]|\\[\x20-\x7E])*/   minus  //...  and  /*...
    r_plain = union(rng(0x20, 0x2E), rng(0x30, 0x5B), rng(0x5D, 0x7E))
    r_esc = ('cat', [_set(chars('\\')), _set(rng(0x20, 0x7E))])
    r_item = ('alt', [_set(r_plain), r_esc])
    r_first = ('alt', [_set(minus(r_plain, chars('*'))), r_esc])
    defs.append(('REGEX', ('cat', [_set(chars('/')), r_first, ('star', r_item), _set(chars('/'))])))
    # skipped elements
    defs.append((SKIP, ('plus', _set(chars('\t ')))))
    defs.append((SKIP, ('plus', _set(chars('\n\r')))))
    line_body = union(chars('\t'), rng(0x20, 0x7E))
    defs.append((SKIP, ('cat', [lit('//'), ('star', _set(line_body))])))
    # /* body */ ending at the first */ : body never contains "*/"
    blk = union(chars('\t\n\r'), rng(0x20, 0x7E))
    not_star = minus(blk, chars('*'))
    not_star_slash = minus(blk, chars('*/'))
    body = ('star', ('alt', [_set(not_star), ('cat', [('plus', _set(chars('*'))), _set(not_star_slash)])]))
    defs.append((SKIP, ('cat', [lit('/*'), body, ('plus', _set(chars('*'))), _set(chars('/'))])))
    return defs


def reference_dfa():
    return scanner_dfa(token_defs())


if __name__ == '__main__':
    d = reference_dfa()
    print('states', d.n, 'accepting', len(d.label))
    for w in ['grammar', 'gramma', 'A', 'AB', '"a"', '/a/', '//', '/* a **/', '/**/', '/*/', '{{', '@left', '$A', '/a\\//', '// x']:
        q = d.run([ord(c) for c in w])
        print(repr(w), q, d.label.get(q) if q is not None else None)
