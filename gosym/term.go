package main

// Hash-consed bit-vector / Boolean term DAG with light simplification and an
// SMT-LIB2 printer.  Width 0 means Bool.

import (
	"fmt"
	"sort"
	"strings"
)

type Term struct {
	id   int
	op   string // "const","var","bvadd",...,"ite","not","and","or","=","bvult",...,"extract","zext","sext","concat","app"
	args []*Term
	w    int    // bit width; 0 = Bool
	val  uint64 // const value (masked); for extract: hi<<8|lo ; for zext/sext: extra bits
	name string // var name / app function name
	p    *TermPool
}

func (t *Term) pool() *TermPool { return t.p }

type TermPool struct {
	tab   map[string]*Term
	next  int
	vars  []*Term // declaration order
	funcs map[string]*FuncDef
	fseq  []*FuncDef

	specCache map[string]*Term
}

type FuncDef struct {
	name   string
	params []*Term // var terms
	body   *Term
	w      int
}

func NewPool() *TermPool {
	return &TermPool{tab: map[string]*Term{}, funcs: map[string]*FuncDef{}, specCache: map[string]*Term{}}
}

func mask(w int) uint64 {
	if w >= 64 {
		return ^uint64(0)
	}
	return (uint64(1) << uint(w)) - 1
}

func (p *TermPool) intern(t *Term) *Term {
	var sb strings.Builder
	sb.WriteString(t.op)
	sb.WriteByte('/')
	fmt.Fprintf(&sb, "%d/%d/%s", t.w, t.val, t.name)
	for _, a := range t.args {
		fmt.Fprintf(&sb, ",%d", a.id)
	}
	k := sb.String()
	if e, ok := p.tab[k]; ok {
		return e
	}
	p.next++
	t.id = p.next
	t.p = p
	p.tab[k] = t
	if t.op == "var" {
		p.vars = append(p.vars, t)
	}
	return t
}

func (p *TermPool) Const(w int, v uint64) *Term {
	return p.intern(&Term{op: "const", w: w, val: v & mask(w)})
}
func (p *TermPool) Bool(b bool) *Term {
	if b {
		return p.intern(&Term{op: "true"})
	}
	return p.intern(&Term{op: "false"})
}
func (p *TermPool) Var(name string, w int) *Term {
	return p.intern(&Term{op: "var", w: w, name: name})
}

func (t *Term) IsConst() bool { return t.op == "const" }
func (t *Term) IsTrue() bool  { return t.op == "true" }
func (t *Term) IsFalse() bool { return t.op == "false" }

func sext64(v uint64, w int) int64 {
	if w >= 64 {
		return int64(v)
	}
	sh := uint(64 - w)
	return int64(v<<sh) >> sh
}

// Bin builds a bit-vector binary operation (same width result).
func (p *TermPool) Bin(op string, a, b *Term) *Term {
	if a.w != b.w {
		panic(fmt.Sprintf("Bin %s width mismatch %d %d", op, a.w, b.w))
	}
	w := a.w
	if a.IsConst() && b.IsConst() {
		x, y := a.val, b.val
		switch op {
		case "bvadd":
			return p.Const(w, x+y)
		case "bvsub":
			return p.Const(w, x-y)
		case "bvmul":
			return p.Const(w, x*y)
		case "bvand":
			return p.Const(w, x&y)
		case "bvor":
			return p.Const(w, x|y)
		case "bvxor":
			return p.Const(w, x^y)
		case "bvshl":
			if y >= uint64(w) {
				return p.Const(w, 0)
			}
			return p.Const(w, x<<y)
		case "bvlshr":
			if y >= uint64(w) {
				return p.Const(w, 0)
			}
			return p.Const(w, x>>y)
		case "bvashr":
			s := sext64(x, w)
			if y >= uint64(w) {
				y = uint64(w - 1)
			}
			return p.Const(w, uint64(s>>y))
		case "bvudiv":
			if y != 0 {
				return p.Const(w, x/y)
			}
		case "bvurem":
			if y != 0 {
				return p.Const(w, x%y)
			}
		case "bvsdiv":
			if y != 0 {
				sx, sy := sext64(x, w), sext64(y, w)
				if !(sy == -1 && sx == sext64(uint64(1)<<uint(w-1), w)) {
					return p.Const(w, uint64(sx/sy))
				}
			}
		case "bvsrem":
			if y != 0 {
				sx, sy := sext64(x, w), sext64(y, w)
				if sy != -1 {
					return p.Const(w, uint64(sx%sy))
				}
				return p.Const(w, 0)
			}
		}
	}
	// identities
	switch op {
	case "bvadd", "bvor", "bvxor":
		if a.IsConst() && a.val == 0 {
			return b
		}
		if b.IsConst() && b.val == 0 {
			return a
		}
	case "bvsub", "bvshl", "bvlshr", "bvashr":
		if b.IsConst() && b.val == 0 {
			return a
		}
	case "bvand":
		if a.IsConst() && a.val == 0 {
			return a
		}
		if b.IsConst() && b.val == 0 {
			return b
		}
		if a.IsConst() && a.val == mask(w) {
			return b
		}
		if b.IsConst() && b.val == mask(w) {
			return a
		}
	case "bvmul":
		if a.IsConst() && a.val == 1 {
			return b
		}
		if b.IsConst() && b.val == 1 {
			return a
		}
	}
	return p.intern(&Term{op: op, w: w, args: []*Term{a, b}})
}

func (p *TermPool) BvNot(a *Term) *Term {
	if a.IsConst() {
		return p.Const(a.w, ^a.val)
	}
	return p.intern(&Term{op: "bvnot", w: a.w, args: []*Term{a}})
}
func (p *TermPool) BvNeg(a *Term) *Term {
	if a.IsConst() {
		return p.Const(a.w, -a.val)
	}
	return p.intern(&Term{op: "bvneg", w: a.w, args: []*Term{a}})
}

// Cmp builds a comparison: "=", "bvult","bvule","bvslt","bvsle" (others derived).
func (p *TermPool) Cmp(op string, a, b *Term) *Term {
	if a.w != b.w {
		panic(fmt.Sprintf("Cmp %s width mismatch %d %d", op, a.w, b.w))
	}
	if a.w == 0 {
		if op != "=" {
			panic("bool cmp " + op)
		}
		return p.Iff(a, b)
	}
	if a.IsConst() && b.IsConst() {
		x, y := a.val, b.val
		sx, sy := sext64(x, a.w), sext64(y, a.w)
		switch op {
		case "=":
			return p.Bool(x == y)
		case "bvult":
			return p.Bool(x < y)
		case "bvule":
			return p.Bool(x <= y)
		case "bvslt":
			return p.Bool(sx < sy)
		case "bvsle":
			return p.Bool(sx <= sy)
		}
	}
	// range facts: zero-extended values are small
	if hiA, ok := p.ubound(a); ok && b.IsConst() {
		switch op {
		case "bvult":
			if hiA < b.val {
				return p.Bool(true)
			}
		case "bvule":
			if hiA <= b.val {
				return p.Bool(true)
			}
		case "=":
			if hiA < b.val {
				return p.Bool(false)
			}
		}
	}
	if hiB, ok := p.ubound(b); ok && a.IsConst() {
		switch op {
		case "bvult":
			if a.val >= hiB {
				return p.Bool(false)
			}
		case "bvule":
			if a.val > hiB {
				return p.Bool(false)
			}
		case "=":
			if a.val > hiB {
				return p.Bool(false)
			}
		}
	}
	if a == b {
		switch op {
		case "=", "bvule", "bvsle":
			return p.Bool(true)
		default:
			return p.Bool(false)
		}
	}
	if op == "=" {
		// ite(c, k1, k2) = k  with constants: simplify
		if b.IsConst() && a.op == "ite" {
			return p.eqIteConst(a, b)
		}
		if a.IsConst() && b.op == "ite" {
			return p.eqIteConst(b, a)
		}
		if a.id > b.id {
			a, b = b, a
		}
	}
	return p.intern(&Term{op: op, args: []*Term{a, b}})
}

// ubound returns an unsigned upper bound of t that is tighter than the type's, if one is evident.
func (p *TermPool) ubound(t *Term) (uint64, bool) {
	switch t.op {
	case "zext":
		if t.args[0].w < 64 {
			return mask(t.args[0].w), true
		}
	case "bvand":
		for _, a := range t.args {
			if a.IsConst() {
				return a.val, true
			}
		}
	case "bvlshr":
		if t.args[1].IsConst() && t.args[1].val < uint64(t.w) && t.w <= 64 {
			return mask(t.w) >> t.args[1].val, true
		}
	}
	return 0, false
}

func (p *TermPool) eqIteConst(it, k *Term) *Term {
	// only when both branches are constants or nested such ites of limited depth
	var rec func(t *Term, depth int) *Term
	rec = func(t *Term, depth int) *Term {
		if t.IsConst() {
			return p.Bool(t.val == k.val)
		}
		if t.op == "ite" && depth < 64 {
			a := rec(t.args[1], depth+1)
			if a == nil {
				return nil
			}
			b := rec(t.args[2], depth+1)
			if b == nil {
				return nil
			}
			return p.Ite(t.args[0], a, b)
		}
		return nil
	}
	if r := rec(it, 0); r != nil {
		return r
	}
	return p.intern(&Term{op: "=", args: []*Term{it, k}})
}

func (p *TermPool) Not(a *Term) *Term {
	switch a.op {
	case "true":
		return p.Bool(false)
	case "false":
		return p.Bool(true)
	case "not":
		return a.args[0]
	}
	return p.intern(&Term{op: "not", args: []*Term{a}})
}

func (p *TermPool) And(a, b *Term) *Term {
	if a.IsFalse() || b.IsFalse() {
		return p.Bool(false)
	}
	if a.IsTrue() {
		return b
	}
	if b.IsTrue() {
		return a
	}
	if a == b {
		return a
	}
	if a.id > b.id {
		a, b = b, a
	}
	return p.intern(&Term{op: "and", args: []*Term{a, b}})
}

func (p *TermPool) Or(a, b *Term) *Term {
	if a.IsTrue() || b.IsTrue() {
		return p.Bool(true)
	}
	if a.IsFalse() {
		return b
	}
	if b.IsFalse() {
		return a
	}
	if a == b {
		return a
	}
	if a.id > b.id {
		a, b = b, a
	}
	return p.intern(&Term{op: "or", args: []*Term{a, b}})
}

func (p *TermPool) Iff(a, b *Term) *Term {
	if a.IsTrue() {
		return b
	}
	if b.IsTrue() {
		return a
	}
	if a.IsFalse() {
		return p.Not(b)
	}
	if b.IsFalse() {
		return p.Not(a)
	}
	if a == b {
		return p.Bool(true)
	}
	if a.id > b.id {
		a, b = b, a
	}
	return p.intern(&Term{op: "=", args: []*Term{a, b}})
}

func (p *TermPool) Ite(c, a, b *Term) *Term {
	if c.IsTrue() {
		return a
	}
	if c.IsFalse() {
		return b
	}
	if a == b {
		return a
	}
	if a.w != b.w {
		panic(fmt.Sprintf("Ite width mismatch %d %d", a.w, b.w))
	}
	if a.w == 0 {
		if a.IsTrue() && b.IsFalse() {
			return c
		}
		if a.IsFalse() && b.IsTrue() {
			return p.Not(c)
		}
		if a.IsTrue() {
			return p.Or(c, b)
		}
		if a.IsFalse() {
			return p.And(p.Not(c), b)
		}
		if b.IsTrue() {
			return p.Or(p.Not(c), a)
		}
		if b.IsFalse() {
			return p.And(c, a)
		}
	}
	return p.intern(&Term{op: "ite", w: a.w, args: []*Term{c, a, b}})
}

func (p *TermPool) Extract(hi, lo int, a *Term) *Term {
	w := hi - lo + 1
	if lo == 0 && w == a.w {
		return a
	}
	if a.IsConst() {
		return p.Const(w, a.val>>uint(lo))
	}
	if (a.op == "zext" || a.op == "sext") && hi < a.args[0].w {
		return p.Extract(hi, lo, a.args[0])
	}
	return p.intern(&Term{op: "extract", w: w, val: uint64(hi)<<8 | uint64(lo), args: []*Term{a}})
}

func (p *TermPool) ZExt(a *Term, w int) *Term {
	if w == a.w {
		return a
	}
	if w < a.w {
		return p.Extract(w-1, 0, a)
	}
	if a.IsConst() {
		return p.Const(w, a.val)
	}
	return p.intern(&Term{op: "zext", w: w, val: uint64(w - a.w), args: []*Term{a}})
}

func (p *TermPool) SExt(a *Term, w int) *Term {
	if w == a.w {
		return a
	}
	if w < a.w {
		return p.Extract(w-1, 0, a)
	}
	if a.IsConst() {
		return p.Const(w, uint64(sext64(a.val, a.w)))
	}
	return p.intern(&Term{op: "sext", w: w, val: uint64(w - a.w), args: []*Term{a}})
}

// App builds an application of a defined function.
func (p *TermPool) App(f *FuncDef, args []*Term) *Term {
	return p.intern(&Term{op: "app", w: f.w, name: f.name, args: args})
}

func (p *TermPool) DefineFunc(name string, params []*Term, body *Term) *FuncDef {
	f := &FuncDef{name: name, params: params, body: body, w: body.w}
	p.funcs[name] = f
	p.fseq = append(p.fseq, f)
	return f
}

func sortStr(w int) string {
	if w == 0 {
		return "Bool"
	}
	return fmt.Sprintf("(_ BitVec %d)", w)
}

func constStr(w int, v uint64) string {
	if w%4 == 0 {
		return fmt.Sprintf("#x%0*x", w/4, v)
	}
	return fmt.Sprintf("#b%0*b", w, v)
}

// head returns the SMT-LIB text of t given names for its arguments.
func (t *Term) head(argName func(*Term) string) string {
	switch t.op {
	case "const":
		return constStr(t.w, t.val)
	case "true", "false":
		return t.op
	case "var":
		return t.name
	case "extract":
		return fmt.Sprintf("((_ extract %d %d) %s)", t.val>>8, t.val&0xff, argName(t.args[0]))
	case "zext":
		return fmt.Sprintf("((_ zero_extend %d) %s)", t.val, argName(t.args[0]))
	case "sext":
		return fmt.Sprintf("((_ sign_extend %d) %s)", t.val, argName(t.args[0]))
	case "app":
		var sb strings.Builder
		sb.WriteString("(" + t.name)
		for _, a := range t.args {
			sb.WriteString(" " + argName(a))
		}
		sb.WriteString(")")
		return sb.String()
	}
	var sb strings.Builder
	sb.WriteString("(" + t.op)
	for _, a := range t.args {
		sb.WriteString(" " + argName(a))
	}
	sb.WriteString(")")
	return sb.String()
}

func (t *Term) isLeaf() bool {
	return t.op == "const" || t.op == "true" || t.op == "false" || t.op == "var"
}

// LetForm prints t as a closed expression (over vars) with nested lets for sharing.
func (t *Term) LetForm() string {
	order := []*Term{}
	seen := map[int]bool{}
	var visit func(x *Term)
	visit = func(x *Term) {
		if seen[x.id] || x.isLeaf() {
			return
		}
		seen[x.id] = true
		for _, a := range x.args {
			visit(a)
		}
		order = append(order, x)
	}
	visit(t)
	nm := func(x *Term) string {
		if x.isLeaf() {
			return x.head(nil)
		}
		return fmt.Sprintf("l%d", x.id)
	}
	if t.isLeaf() {
		return nm(t)
	}
	var sb strings.Builder
	for _, x := range order[:len(order)-1] {
		fmt.Fprintf(&sb, "(let ((l%d %s)) ", x.id, x.head(nm))
	}
	sb.WriteString(t.head(nm))
	for range order[:len(order)-1] {
		sb.WriteString(")")
	}
	return sb.String()
}

// Size returns the number of DAG nodes under t.
func (t *Term) Size() int {
	seen := map[int]bool{}
	var visit func(x *Term)
	visit = func(x *Term) {
		if seen[x.id] {
			return
		}
		seen[x.id] = true
		for _, a := range x.args {
			visit(a)
		}
	}
	visit(t)
	return len(seen)
}

// Eval evaluates t under an assignment of variables (missing vars = 0).
func (p *TermPool) Eval(t *Term, env map[string]uint64, memo map[int]uint64) uint64 {
	if v, ok := memo[t.id]; ok {
		return v
	}
	b2u := func(b bool) uint64 {
		if b {
			return 1
		}
		return 0
	}
	var r uint64
	ev := func(x *Term) uint64 { return p.Eval(x, env, memo) }
	switch t.op {
	case "const":
		r = t.val
	case "true":
		r = 1
	case "false":
		r = 0
	case "var":
		r = env[t.name] & mask(maxInt(t.w, 1))
	case "not":
		r = 1 - ev(t.args[0])
	case "and":
		r = ev(t.args[0]) & ev(t.args[1])
	case "or":
		r = ev(t.args[0]) | ev(t.args[1])
	case "ite":
		if ev(t.args[0]) != 0 {
			r = ev(t.args[1])
		} else {
			r = ev(t.args[2])
		}
	case "=":
		r = b2u(ev(t.args[0]) == ev(t.args[1]))
	case "bvult":
		r = b2u(ev(t.args[0]) < ev(t.args[1]))
	case "bvule":
		r = b2u(ev(t.args[0]) <= ev(t.args[1]))
	case "bvslt":
		w := t.args[0].w
		r = b2u(sext64(ev(t.args[0]), w) < sext64(ev(t.args[1]), w))
	case "bvsle":
		w := t.args[0].w
		r = b2u(sext64(ev(t.args[0]), w) <= sext64(ev(t.args[1]), w))
	case "bvnot":
		r = ^ev(t.args[0]) & mask(t.w)
	case "bvneg":
		r = -ev(t.args[0]) & mask(t.w)
	case "extract":
		r = (ev(t.args[0]) >> (t.val & 0xff)) & mask(t.w)
	case "zext":
		r = ev(t.args[0])
	case "sext":
		r = uint64(sext64(ev(t.args[0]), t.args[0].w)) & mask(t.w)
	case "app":
		f := p.funcs[t.name]
		env2 := map[string]uint64{}
		for i, pa := range f.params {
			env2[pa.name] = ev(t.args[i])
		}
		r = p.Eval(f.body, env2, map[int]uint64{})
	default:
		a, b := p.Const(t.w, ev(t.args[0])), p.Const(t.w, ev(t.args[1]))
		c := p.Bin(t.op, a, b)
		if !c.IsConst() {
			// division by zero etc: SMT-LIB semantics
			switch t.op {
			case "bvudiv":
				r = mask(t.w)
			case "bvurem", "bvsrem":
				r = a.val
			case "bvsdiv":
				if sext64(a.val, t.w) < 0 {
					r = 1
				} else {
					r = mask(t.w)
				}
			default:
				panic("Eval: cannot fold " + t.op)
			}
		} else {
			r = c.val
		}
	}
	memo[t.id] = r
	return r
}

func maxInt(a, b int) int {
	if a > b {
		return a
	}
	return b
}

// Vars returns the variables occurring in the given terms, sorted by name.
func Vars(ts ...*Term) []*Term {
	seen := map[int]bool{}
	var out []*Term
	var visit func(x *Term)
	visit = func(x *Term) {
		if seen[x.id] {
			return
		}
		seen[x.id] = true
		if x.op == "var" {
			out = append(out, x)
		}
		for _, a := range x.args {
			visit(a)
		}
	}
	for _, t := range ts {
		visit(t)
	}
	sort.Slice(out, func(i, j int) bool { return out[i].name < out[j].name })
	return out
}

// Subst rebuilds t with variables replaced (by name), re-running the simplifying constructors.
func (p *TermPool) Subst(t *Term, env map[string]*Term, memo map[int]*Term) *Term {
	if r, ok := memo[t.id]; ok {
		return r
	}
	var r *Term
	switch t.op {
	case "const", "true", "false":
		r = t
	case "var":
		if x, ok := env[t.name]; ok {
			r = x
		} else {
			r = t
		}
	default:
		args := make([]*Term, len(t.args))
		same := true
		for i, a := range t.args {
			args[i] = p.Subst(a, env, memo)
			if args[i] != a {
				same = false
			}
		}
		if same {
			r = t
			break
		}
		switch t.op {
		case "not":
			r = p.Not(args[0])
		case "and":
			r = p.And(args[0], args[1])
		case "or":
			r = p.Or(args[0], args[1])
		case "ite":
			r = p.Ite(args[0], args[1], args[2])
		case "=", "bvult", "bvule", "bvslt", "bvsle":
			r = p.Cmp(t.op, args[0], args[1])
		case "bvnot":
			r = p.BvNot(args[0])
		case "bvneg":
			r = p.BvNeg(args[0])
		case "extract":
			r = p.Extract(int(t.val>>8), int(t.val&0xff), args[0])
		case "zext":
			r = p.ZExt(args[0], t.w)
		case "sext":
			r = p.SExt(args[0], t.w)
		case "app":
			r = p.intern(&Term{op: "app", w: t.w, name: t.name, args: args})
		default:
			r = p.Bin(t.op, args[0], args[1])
		}
	}
	memo[t.id] = r
	return r
}
