package main

// One persistent SMT solver process (z3 -in, z3-new -in, cvc5 --incremental).
// Definitions are emitted once at the base level; every query is push/assert/check/pop.
// Any "(error" line or "unknown" answer makes the query inconclusive.

import (
	"bufio"
	"fmt"
	"io"
	"os"
	"os/exec"
	"regexp"
	"sort"
	"strconv"
	"strings"
	"time"
)

type SatResult int

const (
	Unsat SatResult = iota
	Sat
	Unknown
)

func (r SatResult) String() string { return [...]string{"unsat", "sat", "unknown"}[r] }

type Solver struct {
	name    string
	cmd     *exec.Cmd
	in      io.WriteCloser
	out     *bufio.Reader
	pool    *TermPool
	emitted map[int]bool
	fdone   map[string]bool
	buf     strings.Builder
	seq     int

	Queries   int
	NSat      int
	NUnsat    int
	NUnknown  int
	Seconds   float64
	LastError string
	timeoutMs int
	unsatCache map[string]bool
	CacheHits  int
}

func solverArgv(name string, timeoutMs int) []string {
	switch name {
	case "z3":
		return []string{"/usr/bin/z3", "-in", fmt.Sprintf("-t:%d", timeoutMs)}
	case "z3-new":
		return []string{"z3-new", "-in", fmt.Sprintf("-t:%d", timeoutMs)}
	case "cvc5":
		return []string{"cvc5", "--incremental", "--lang", "smt2", fmt.Sprintf("--tlimit-per=%d", timeoutMs)}
	}
	panic("unknown solver " + name)
}

func NewSolver(name string, pool *TermPool, timeoutMs int) (*Solver, error) {
	argv := solverArgv(name, timeoutMs)
	cmd := exec.Command(argv[0], argv[1:]...)
	in, err := cmd.StdinPipe()
	if err != nil {
		return nil, err
	}
	outp, err := cmd.StdoutPipe()
	if err != nil {
		return nil, err
	}
	cmd.Stderr = cmd.Stdout
	if err := cmd.Start(); err != nil {
		return nil, err
	}
	s := &Solver{name: name, cmd: cmd, in: in, out: bufio.NewReaderSize(outp, 1<<20), pool: pool,
		emitted: map[int]bool{}, fdone: map[string]bool{}, timeoutMs: timeoutMs, unsatCache: map[string]bool{}}
	if name == "cvc5" {
		s.buf.WriteString("(set-logic QF_BV)\n")
	}
	s.buf.WriteString("(set-option :produce-models true)\n")
	return s, nil
}

func (s *Solver) Close() {
	if s == nil || s.cmd == nil {
		return
	}
	s.in.Close()
	done := make(chan struct{})
	go func() { s.cmd.Wait(); close(done) }()
	select {
	case <-done:
	case <-time.After(2 * time.Second):
		s.cmd.Process.Kill()
	}
	s.cmd = nil
}

func (s *Solver) tname(t *Term) string {
	if t.isLeaf() {
		return t.head(nil)
	}
	return fmt.Sprintf("t%d", t.id)
}

func (s *Solver) emitFunc(f *FuncDef) {
	if s.fdone[f.name] {
		return
	}
	s.fdone[f.name] = true
	// functions used inside the body first
	seen := map[int]bool{}
	var visit func(x *Term)
	visit = func(x *Term) {
		if seen[x.id] {
			return
		}
		seen[x.id] = true
		if x.op == "app" {
			s.emitFunc(s.pool.funcs[x.name])
		}
		for _, a := range x.args {
			visit(a)
		}
	}
	visit(f.body)
	var ps []string
	for _, p := range f.params {
		ps = append(ps, fmt.Sprintf("(%s %s)", p.name, sortStr(p.w)))
	}
	fmt.Fprintf(&s.buf, "(define-fun %s (%s) %s %s)\n", f.name, strings.Join(ps, " "), sortStr(f.w), f.body.LetForm())
}

// emit makes sure t (and everything below it) is defined in the solver.
func (s *Solver) emit(t *Term) {
	if s.emitted[t.id] {
		return
	}
	// iterative post-order to avoid deep recursion
	type fr struct {
		t *Term
		i int
	}
	stack := []fr{{t, 0}}
	for len(stack) > 0 {
		top := &stack[len(stack)-1]
		if s.emitted[top.t.id] {
			stack = stack[:len(stack)-1]
			continue
		}
		if top.i < len(top.t.args) {
			a := top.t.args[top.i]
			top.i++
			if !s.emitted[a.id] {
				stack = append(stack, fr{a, 0})
			}
			continue
		}
		x := top.t
		stack = stack[:len(stack)-1]
		s.emitted[x.id] = true
		switch x.op {
		case "const", "true", "false":
		case "var":
			fmt.Fprintf(&s.buf, "(declare-const %s %s)\n", x.name, sortStr(x.w))
		default:
			if x.op == "app" {
				s.emitFunc(s.pool.funcs[x.name])
			}
			fmt.Fprintf(&s.buf, "(define-fun t%d () %s %s)\n", x.id, sortStr(x.w), x.head(s.tname))
		}
	}
}

var valRe = regexp.MustCompile(`\(\s*([^\s()]+)\s+(#x[0-9a-fA-F]+|#b[01]+|true|false)\s*\)`)

// Check decides satisfiability of the conjunction of asserts.  If wantModel is
// non-nil and the result is Sat, the values of those variables are returned.
func (s *Solver) Check(asserts []*Term, wantModel []*Term) (SatResult, map[string]uint64) {
	// unsat answers are cached by the set of asserted terms (sat answers need fresh models)
	ids := make([]int, 0, len(asserts))
	for _, a := range asserts {
		if a.IsFalse() {
			return Unsat, nil
		}
		if !a.IsTrue() {
			ids = append(ids, a.id)
		}
	}
	sort.Ints(ids)
	key := fmt.Sprint(ids)
	if s.unsatCache[key] {
		s.CacheHits++
		return Unsat, nil
	}
	res, m := s.check(asserts, wantModel)
	if res == Unsat {
		s.unsatCache[key] = true
	}
	return res, m
}

func (s *Solver) check(asserts []*Term, wantModel []*Term) (SatResult, map[string]uint64) {
	start := time.Now()
	for _, a := range asserts {
		s.emit(a)
	}
	for _, v := range wantModel {
		s.emit(v)
	}
	s.seq++
	marker := fmt.Sprintf("<<q%d>>", s.seq)
	s.buf.WriteString("(push 1)\n")
	for _, a := range asserts {
		fmt.Fprintf(&s.buf, "(assert %s)\n", s.tname(a))
	}
	s.buf.WriteString("(check-sat)\n")
	fmt.Fprintf(&s.buf, "(echo \"%s\")\n", marker)
	lines := s.flushRead(marker)
	res := Unknown
	bad := false
	for _, l := range lines {
		l = strings.TrimSpace(l)
		switch {
		case l == "sat":
			res = Sat
		case l == "unsat":
			res = Unsat
		case l == "unknown":
			res = Unknown
		case strings.Contains(l, "(error") || strings.Contains(l, "rror"):
			bad = true
			s.LastError = l
		}
	}
	if bad {
		res = Unknown
	}
	var model map[string]uint64
	if res == Sat && len(wantModel) > 0 {
		model = map[string]uint64{}
		// chunk get-value requests
		for i := 0; i < len(wantModel); i += 200 {
			j := i + 200
			if j > len(wantModel) {
				j = len(wantModel)
			}
			var names []string
			for _, v := range wantModel[i:j] {
				names = append(names, v.name)
			}
			s.seq++
			m2 := fmt.Sprintf("<<q%d>>", s.seq)
			fmt.Fprintf(&s.buf, "(get-value (%s))\n(echo \"%s\")\n", strings.Join(names, " "), m2)
			out := strings.Join(s.flushRead(m2), " ")
			if strings.Contains(out, "(error") {
				s.LastError = out
				res = Unknown
			}
			for _, m := range valRe.FindAllStringSubmatch(out, -1) {
				model[m[1]] = parseVal(m[2])
			}
		}
	}
	s.buf.WriteString("(pop 1)\n")
	s.Queries++
	switch res {
	case Sat:
		s.NSat++
	case Unsat:
		s.NUnsat++
	default:
		s.NUnknown++
	}
	s.Seconds += time.Since(start).Seconds()
	return res, model
}

func parseVal(v string) uint64 {
	switch {
	case v == "true":
		return 1
	case v == "false":
		return 0
	case strings.HasPrefix(v, "#x"):
		n, _ := strconv.ParseUint(v[2:], 16, 64)
		return n
	case strings.HasPrefix(v, "#b"):
		n, _ := strconv.ParseUint(v[2:], 2, 64)
		return n
	}
	return 0
}

func (s *Solver) flushRead(marker string) []string {
	if d := os.Getenv("GOSYM_DUMP"); d != "" {
		if f, err := os.OpenFile(fmt.Sprintf("%s.%s.%p.smt2", d, s.name, s), os.O_APPEND|os.O_CREATE|os.O_WRONLY, 0o644); err == nil {
			f.WriteString(s.buf.String())
			f.Close()
		}
	}
	io.WriteString(s.in, s.buf.String())
	s.buf.Reset()
	var lines []string
	for {
		l, err := s.out.ReadString('\n')
		if strings.Contains(l, marker) {
			return lines
		}
		if l != "" {
			lines = append(lines, l)
		}
		if err != nil {
			lines = append(lines, "(error \"solver died: "+err.Error()+"\")")
			return lines
		}
	}
}
