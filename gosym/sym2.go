package main

import (
	"fmt"
	"go/types"

	"golang.org/x/tools/go/ssa"
)

// deepSym reports whether v contains a symbolic scalar anywhere (structs, arrays, interfaces).
func deepSym(v value) bool {
	switch v := v.(type) {
	case symInt, symBool, *symStr, *enumStr:
		return true
	case structure:
		for _, f := range v {
			if deepSym(f) {
				return true
			}
		}
	case array:
		for _, f := range v {
			if deepSym(f) {
				return true
			}
		}
	case iface:
		return v.t != nil && deepSym(v.v)
	}
	return false
}

func deepPool(vs ...value) *TermPool {
	for _, v := range vs {
		if p := deepPool1(v); p != nil {
			return p
		}
	}
	panic("deepPool: no symbolic part")
}

func deepPool1(v value) *TermPool {
	switch v := v.(type) {
	case symInt:
		return v.t.pool()
	case symBool:
		return v.t.pool()
	case *enumStr:
		return v.idx.pool()
	case *symStr:
		for _, b := range v.b {
			if s, ok := b.(symInt); ok {
				return s.t.pool()
			}
		}
	case structure:
		for _, f := range v {
			if p := deepPool1(f); p != nil {
				return p
			}
		}
	case array:
		for _, f := range v {
			if p := deepPool1(f); p != nil {
				return p
			}
		}
	case iface:
		if v.t != nil {
			return deepPool1(v.v)
		}
	}
	return nil
}

// symEquals is the == relation on values that may contain symbolic scalars.
func symEquals(p *TermPool, x, y value) *Term {
	switch xv := x.(type) {
	case bool, symBool:
		return p.Iff(boolTerm(p, x), boolTerm(p, y))
	case string, *symStr, *enumStr:
		return strEq(p, x, y)
	case structure:
		yv := y.(structure)
		r := p.Bool(true)
		for i := range xv {
			r = p.And(r, symEquals(p, xv[i], yv[i]))
		}
		return r
	case array:
		yv := y.(array)
		r := p.Bool(true)
		for i := range xv {
			r = p.And(r, symEquals(p, xv[i], yv[i]))
		}
		return r
	case iface:
		yv := y.(iface)
		if xv.t == nil || yv.t == nil {
			return p.Bool(xv.t == nil && yv.t == nil)
		}
		if !types.Identical(xv.t, yv.t) {
			return p.Bool(false)
		}
		return symEquals(p, xv.v, yv.v)
	}
	if _, ok := valueKind(x); ok {
		return p.Cmp("=", intTerm(p, x), intTerm(p, y))
	}
	return p.Bool(equals(nil, x, y))
}

func enumLen(e *enumStr) value {
	p := e.idx.pool()
	var r *Term
	for i := len(e.choices) - 1; i >= 0; i-- {
		c := p.Const(64, uint64(len(e.choices[i])))
		if r == nil {
			r = c
		} else {
			r = p.Ite(p.Cmp("=", e.idx, p.Const(8, uint64(i))), c, r)
		}
	}
	return fromIntTerm(types.Int, r)
}

// conv handles conversions that involve symbolic values, and defers to the concrete one otherwise.
func (r *Run) conv(fr *frame, instr ssa.Instruction, tDst, tSrc types.Type, x value) value {
	ud := tDst.Underlying()
	switch xv := x.(type) {
	case symInt:
		if b, ok := ud.(*types.Basic); ok {
			if b.Info()&types.IsInteger != 0 {
				return symConvInt(b.Kind(), xv)
			}
			if b.Kind() == types.String {
				// string(rune): only ASCII handled symbolically
				p := r.pool
				t := p.ZExt(xv.t, 64)
				if xv.t.w > 64 {
					t = p.Extract(63, 0, xv.t)
				}
				ok := r.require(p.Cmp("bvult", t, p.Const(64, 0x80)), "unsupported", "string(rune) of a symbolic non-ASCII rune is outside the engine", fr.pos(instr))
				_ = ok
				return mkStr([]value{fromIntTerm(types.Uint8, p.Extract(7, 0, xv.t))})
			}
		}
		panic(unsupported(fmt.Sprintf("conversion of symbolic %v to %v", tSrc, tDst)))
	case *enumStr:
		if b, ok := ud.(*types.Basic); ok && b.Kind() == types.String {
			return x
		}
		u := r.concretize(xv.idx, "enum string conversion", 64)
		return conv(tDst, tSrc, xv.choices[u])
	case *symStr:
		switch ud := ud.(type) {
		case *types.Basic:
			if ud.Kind() == types.String {
				return x
			}
		case *types.Slice:
			switch ud.Elem().Underlying().(*types.Basic).Kind() {
			case types.Byte:
				return append([]value{}, xv.b...)
			case types.Rune:
				return r.symRunes(fr, instr, xv)
			}
		}
		panic(unsupported(fmt.Sprintf("conversion of symbolic string to %v", tDst)))
	case []value:
		if deepSymSlice(xv) {
			if sl, ok := tSrc.Underlying().(*types.Slice); ok {
				switch sl.Elem().Underlying().(*types.Basic).Kind() {
				case types.Byte:
					return mkStr(xv)
				case types.Rune:
					// []rune -> string, ASCII only
					out := make([]value, len(xv))
					p := r.pool
					for i, e := range xv {
						t := intTerm(p, e)
						r.require(p.Cmp("bvult", t, p.Const(32, 0x80)), "unsupported", "string([]rune) with a symbolic non-ASCII rune is outside the engine", fr.pos(instr))
						out[i] = fromIntTerm(types.Uint8, p.Extract(7, 0, t))
					}
					return mkStr(out)
				}
			}
		}
	}
	return conv(tDst, tSrc, x)
}

func deepSymSlice(xs []value) bool {
	for _, x := range xs {
		if isSym(x) {
			return true
		}
	}
	return false
}

// symRunes converts a symbolic string to []rune.  Every symbolic byte must be ASCII on this
// path (checked by the solver); otherwise the path is outside the engine's reach.
func (r *Run) symRunes(fr *frame, instr ssa.Instruction, s *symStr) value {
	p := r.pool
	// concrete prefix/suffix runs are decoded natively only if the whole string is ASCII
	out := make([]value, 0, len(s.b))
	for _, b := range s.b {
		t := intTerm(p, b)
		if !t.IsConst() {
			res, _ := r.sat(p.Cmp("bvule", p.Const(8, 0x80), t))
			if res != Unsat {
				panic(unsupported("[]rune(s) where a symbolic byte may be >= 0x80 at " + fr.pos(instr)))
			}
		} else if t.val >= 0x80 {
			panic(unsupported("[]rune(s) mixing symbolic bytes with non-ASCII at " + fr.pos(instr)))
		}
		out = append(out, fromIntTerm(types.Int32, p.ZExt(t, 32)))
	}
	return out
}

// symStrIter ranges over a string with symbolic bytes (ASCII only, as symRunes).
func (r *Run) symStrIter(s *symStr) iter {
	p := r.pool
	it := &listIter{}
	for i, b := range s.b {
		t := intTerm(p, b)
		if !t.IsConst() {
			res, _ := r.sat(p.Cmp("bvule", p.Const(8, 0x80), t))
			if res != Unsat {
				panic(unsupported("range over string where a symbolic byte may be >= 0x80"))
			}
		} else if t.val >= 0x80 {
			panic(unsupported("range over string mixing symbolic bytes with non-ASCII"))
		}
		it.items = append(it.items, tuple{true, i, fromIntTerm(types.Int32, p.ZExt(t, 32))})
	}
	return it
}
