package main

// A cheap interval pre-solver: unsigned ranges of input variables are harvested from the
// path condition, and a term is evaluated over them.  It only ever answers "definitely
// true/false"; everything else goes to the SMT solver.

type rng struct{ lo, hi uint64 }

func (r *Run) learn(c *Term) {
	switch c.op {
	case "and":
		r.learn(c.args[0])
		r.learn(c.args[1])
	case "bvule", "bvult":
		a, b := c.args[0], c.args[1]
		off := uint64(0)
		if c.op == "bvult" {
			off = 1
		}
		if a.IsConst() && b.op == "var" { // k <= x  /  k < x
			cur := r.rangeVar(b)
			if a.val+off > cur.lo {
				cur.lo = a.val + off
			}
			r.ranges[b.name] = cur
		} else if b.IsConst() && a.op == "var" { // x <= k / x < k
			cur := r.rangeVar(a)
			if b.val >= off && b.val-off < cur.hi {
				cur.hi = b.val - off
			}
			r.ranges[a.name] = cur
		}
	case "=":
		a, b := c.args[0], c.args[1]
		if a.w == 0 {
			return
		}
		if a.IsConst() && b.op == "var" {
			r.rangeVar(b)
			r.ranges[b.name] = rng{a.val, a.val}
		} else if b.IsConst() && a.op == "var" {
			r.rangeVar(a)
			r.ranges[a.name] = rng{b.val, b.val}
		}
	}
}

func (r *Run) rangeVar(v *Term) rng {
	if r.ranges == nil {
		r.ranges = map[string]rng{}
	}
	if x, ok := r.ranges[v.name]; ok {
		return x
	}
	return rng{0, mask(maxInt(v.w, 1))}
}

// rangeOf returns an unsigned interval containing every value t can take under the
// harvested variable ranges (Booleans: 0/1).
func (r *Run) rangeOf(t *Term, memo map[int]rng, depth int) rng {
	if x, ok := memo[t.id]; ok {
		return x
	}
	full := rng{0, mask(maxInt(t.w, 1))}
	if depth > 200 {
		return full
	}
	res := full
	rec := func(x *Term) rng { return r.rangeOf(x, memo, depth+1) }
	cmpU := func(strict bool, a, b rng) rng {
		if strict {
			switch {
			case a.hi < b.lo:
				return rng{1, 1}
			case a.lo >= b.hi:
				return rng{0, 0}
			}
			return rng{0, 1}
		}
		switch {
		case a.hi <= b.lo:
			return rng{1, 1}
		case a.lo > b.hi:
			return rng{0, 0}
		}
		return rng{0, 1}
	}
	switch t.op {
	case "const":
		res = rng{t.val, t.val}
	case "true":
		res = rng{1, 1}
	case "false":
		res = rng{0, 0}
	case "var":
		res = r.rangeVar(t)
	case "zext":
		res = rec(t.args[0])
	case "extract":
		a := rec(t.args[0])
		lo := t.val & 0xff
		if lo == 0 && a.hi <= mask(t.w) {
			res = a
		}
	case "ite":
		c := rec(t.args[0])
		switch {
		case c.lo == 1:
			res = rec(t.args[1])
		case c.hi == 0:
			res = rec(t.args[2])
		default:
			a, b := rec(t.args[1]), rec(t.args[2])
			res = rng{minU(a.lo, b.lo), maxU(a.hi, b.hi)}
		}
	case "not":
		a := rec(t.args[0])
		res = rng{1 - a.hi, 1 - a.lo}
	case "and":
		a, b := rec(t.args[0]), rec(t.args[1])
		res = rng{a.lo & b.lo, a.hi & b.hi}
	case "or":
		a, b := rec(t.args[0]), rec(t.args[1])
		res = rng{a.lo | b.lo, a.hi | b.hi}
	case "=":
		a, b := rec(t.args[0]), rec(t.args[1])
		switch {
		case a.hi < b.lo || b.hi < a.lo:
			res = rng{0, 0}
		case a.lo == a.hi && b.lo == b.hi && a.lo == b.lo:
			res = rng{1, 1}
		default:
			res = rng{0, 1}
		}
	case "bvult":
		res = cmpU(true, rec(t.args[0]), rec(t.args[1]))
	case "bvule":
		res = cmpU(false, rec(t.args[0]), rec(t.args[1]))
	case "bvslt", "bvsle":
		a, b := rec(t.args[0]), rec(t.args[1])
		half := uint64(1) << uint(t.args[0].w-1)
		if a.hi < half && b.hi < half { // both non-negative: same as unsigned
			res = cmpU(t.op == "bvslt", a, b)
		} else {
			res = rng{0, 1}
		}
	case "bvand":
		a, b := rec(t.args[0]), rec(t.args[1])
		res = rng{0, minU(a.hi, b.hi)}
	case "bvlshr":
		a, b := rec(t.args[0]), rec(t.args[1])
		if b.lo == b.hi && b.lo < 64 {
			res = rng{a.lo >> b.lo, a.hi >> b.lo}
		}
	case "bvadd":
		a, b := rec(t.args[0]), rec(t.args[1])
		if a.hi+b.hi >= a.hi && a.hi+b.hi <= mask(t.w) {
			res = rng{a.lo + b.lo, a.hi + b.hi}
		}
	}
	if t.w == 0 && res.hi > 1 {
		res = rng{0, 1}
	}
	memo[t.id] = res
	return res
}

func minU(a, b uint64) uint64 {
	if a < b {
		return a
	}
	return b
}
func maxU(a, b uint64) uint64 {
	if a > b {
		return a
	}
	return b
}

// decided returns (value, true) if the Boolean term is constant under the harvested ranges.
func (r *Run) decided(c *Term) (bool, bool) {
	x := r.rangeOf(c, map[int]rng{}, 0)
	if x.lo == 1 {
		return true, true
	}
	if x.hi == 0 {
		return false, true
	}
	return false, false
}
