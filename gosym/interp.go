// Derived from golang.org/x/tools/go/ssa/interp (BSD-style licence, The Go Authors),
// extended with symbolic scalars, path decisions and solver obligations.

package main

import (
	"fmt"
	"go/token"
	"go/types"
	"runtime"
	"slices"
	"strings"
	"sync"

	"golang.org/x/tools/go/ssa"
)

type continuation int

const (
	kNext continuation = iota
	kReturn
	kJump
)

type methodSet map[string]*ssa.Function

// interpreter is the state of one path execution.
type interpreter struct {
	prog               *ssa.Program
	globals            map[*ssa.Global]*value
	runtimeErrorString types.Type
	sizes              types.Sizes
	run                *Run
	initPkgs           map[string]bool
	lazyTried          map[string]bool
	depth              int
	cur                *frame
	regPool            map[*funcInfo][][]value
}

// stack returns the innermost interpreted frames (for diagnostics).
func (i *interpreter) stack(n int) string {
	var parts []string
	for fr := i.cur; fr != nil && len(parts) < n; fr = fr.caller {
		parts = append(parts, fr.fn.String())
	}
	return strings.Join(parts, " <- ")
}

type deferred struct {
	fn    value
	args  []value
	instr *ssa.Defer
	tail  *deferred
}

type frame struct {
	i                *interpreter
	caller           *frame
	fn               *ssa.Function
	block, prevBlock *ssa.BasicBlock
	fi               *funcInfo
	regs             []value
	locals           []value
	defers           *deferred
	result           value
	panicking        bool
	panic            any
	phitemps         []value
}

func mustDeref(t types.Type) types.Type {
	if p, ok := t.Underlying().(*types.Pointer); ok {
		return p.Elem()
	}
	panic(fmt.Sprintf("mustDeref: %v is not a pointer", t))
}

func (fr *frame) get(key ssa.Value) value {
	switch key := key.(type) {
	case nil:
		return nil
	case *ssa.Function, *ssa.Builtin:
		return key
	case *ssa.Const:
		return constValue(key)
	case *ssa.Global:
		return fr.i.global(key)
	}
	if ix, ok := fr.fi.idx[key]; ok {
		if r := fr.regs[ix]; r != nil || true {
			return r
		}
	}
	panic(fmt.Sprintf("get: no value for %T: %v", key, key.Name()))
}

func (fr *frame) set(key ssa.Value, v value) {
	fr.regs[fr.fi.idx[key]] = v
}

// funcInfo assigns a register index to every SSA value of a function (computed once).
type funcInfo struct {
	idx  map[ssa.Value]int
	n    int
	name string // fn.String() (of the generic origin for instantiations)
	self string // fn.String()
}

var funcInfos sync.Map

func infoOf(fn *ssa.Function) *funcInfo {
	if fi, ok := funcInfos.Load(fn); ok {
		return fi.(*funcInfo)
	}
	fi := &funcInfo{idx: map[ssa.Value]int{}, name: fn.String(), self: fn.String()}
	if fn.Origin() != nil {
		fi.name = fn.Origin().String()
	}
	add := func(v ssa.Value) {
		if _, ok := fi.idx[v]; !ok {
			fi.idx[v] = fi.n
			fi.n++
		}
	}
	for _, p := range fn.Params {
		add(p)
	}
	for _, fv := range fn.FreeVars {
		add(fv)
	}
	for _, l := range fn.Locals {
		add(l)
	}
	for _, b := range fn.Blocks {
		for _, ins := range b.Instrs {
			if v, ok := ins.(ssa.Value); ok {
				add(v)
			}
		}
	}
	actual, _ := funcInfos.LoadOrStore(fn, fi)
	return actual.(*funcInfo)
}

func (i *interpreter) global(g *ssa.Global) *value {
	if r, ok := i.globals[g]; ok {
		return r
	}
	// A package outside the configured initialisation set is initialised the first time one of its
	// package-level variables is used (its tables would silently read as zero otherwise).  The
	// initialisers of its imports stay skipped until their own variables are used.
	if g.Pkg != nil && !i.initPkgs[g.Pkg.Pkg.Path()] && !i.lazyTried[g.Pkg.Pkg.Path()] {
		path := g.Pkg.Pkg.Path()
		if i.lazyTried == nil {
			i.lazyTried = map[string]bool{}
		}
		i.lazyTried[path] = true
		skip := path == "os" || path == "runtime" || strings.HasPrefix(path, "internal/") || strings.HasPrefix(path, "runtime/") || path == "syscall" ||
			path == "reflect" || path == "sync" || path == "sync/atomic" || path == "time" || path == "errors" || path == "flag" || path == "log" || path == "os/signal"
		if f := g.Pkg.Func("init"); f != nil && f.Blocks != nil && !skip {
			i.initPkgs[path] = true
			saved, savedDepth := i.cur, i.depth
			func() {
				defer func() { i.cur, i.depth = saved, savedDepth }()
				call(i, nil, 0, f, nil)
			}()
			i.run.lazyInit(path)
			if r, ok := i.globals[g]; ok {
				return r
			}
		}
	}
	cell := zero(mustDeref(g.Type()))
	if g.Pkg != nil && g.Pkg.Pkg.Path() == "os" && g.Name() == "Args" {
		cell = []value{"emerge"} // the program name; arguments are the business of the flag-parsing stub
	}
	i.globals[g] = &cell
	return &cell
}

func (fr *frame) runDefer(d *deferred) {
	var ok bool
	defer func() {
		if !ok {
			r := recover()
			if isControl(r) {
				panic(r)
			}
			fr.panicking = true
			fr.panic = r
		}
	}()
	call(fr.i, fr, d.instr.Pos(), d.fn, d.args)
	ok = true
}

func (fr *frame) runDefers() {
	for d := fr.defers; d != nil; d = d.tail {
		fr.runDefer(d)
	}
	fr.defers = nil
	if fr.panicking {
		panic(fr.panic)
	}
}

type methKey struct {
	t types.Type
	m *types.Func
}

func lookupMethod(i *interpreter, typ types.Type, meth *types.Func) *ssa.Function {
	k := methKey{typ, meth}
	if f, ok := i.run.methCache[k]; ok {
		return f
	}
	f := i.prog.LookupMethod(typ, meth.Pkg(), meth.Name())
	i.run.methCache[k] = f
	return f
}

func (fr *frame) pos(instr ssa.Instruction) string {
	p := instr.Pos()
	if p == token.NoPos {
		return fr.fn.String()
	}
	return fr.i.prog.Fset.Position(p).String()
}

func visitInstr(fr *frame, instr ssa.Instruction) continuation {
	run := fr.i.run
	run.step(fr, instr)
	switch instr := instr.(type) {
	case *ssa.DebugRef:

	case *ssa.UnOp:
		if instr.Op == token.MUL {
			fr.regs[fr.fi.idx[instr]] = run.loadAddr(fr, instr, mustDeref(instr.X.Type()), fr.get(instr.X))
		} else {
			fr.regs[fr.fi.idx[instr]] = unop(instr, fr.get(instr.X))
		}

	case *ssa.BinOp:
		x, y := fr.get(instr.X), fr.get(instr.Y)
		if instr.Op == token.QUO || instr.Op == token.REM {
			run.checkDivisor(fr, instr, y)
		}
		fr.regs[fr.fi.idx[instr]] = binop(instr.Op, instr.X.Type(), x, y)

	case *ssa.Call:
		fn, args := prepareCall(fr, &instr.Call)
		fr.regs[fr.fi.idx[instr]] = call(fr.i, fr, instr.Pos(), fn, args)

	case *ssa.ChangeInterface:
		fr.regs[fr.fi.idx[instr]] = fr.get(instr.X)

	case *ssa.ChangeType:
		fr.regs[fr.fi.idx[instr]] = fr.get(instr.X)

	case *ssa.Convert:
		fr.regs[fr.fi.idx[instr]] = run.conv(fr, instr, instr.Type(), instr.X.Type(), fr.get(instr.X))

	case *ssa.SliceToArrayPointer:
		fr.regs[fr.fi.idx[instr]] = sliceToArrayPointer(instr.Type(), instr.X.Type(), fr.get(instr.X))

	case *ssa.MakeInterface:
		fr.regs[fr.fi.idx[instr]] = iface{t: instr.X.Type(), v: fr.get(instr.X)}

	case *ssa.Extract:
		fr.regs[fr.fi.idx[instr]] = fr.get(instr.Tuple).(tuple)[instr.Index]

	case *ssa.Slice:
		x := fr.get(instr.X)
		lo := run.concretizeOpt(fr, instr, fr.get(instr.Low))
		hi := run.concretizeOpt(fr, instr, fr.get(instr.High))
		mx := run.concretizeOpt(fr, instr, fr.get(instr.Max))
		fr.regs[fr.fi.idx[instr]] = slice(x, lo, hi, mx)

	case *ssa.Return:
		switch len(instr.Results) {
		case 0:
		case 1:
			fr.result = fr.get(instr.Results[0])
		default:
			var res []value
			for _, r := range instr.Results {
				res = append(res, fr.get(r))
			}
			fr.result = tuple(res)
		}
		fr.block = nil
		return kReturn

	case *ssa.RunDefers:
		fr.runDefers()

	case *ssa.Panic:
		panic(targetPanic{fr.get(instr.X), fr.pos(instr)})

	case *ssa.Send:
		panic(unsupported("channel send"))

	case *ssa.Store:
		run.storeAddr(fr, instr, mustDeref(instr.Addr.Type()), fr.get(instr.Addr), fr.get(instr.Val))

	case *ssa.If:
		succ := 1
		c := fr.get(instr.Cond)
		switch c := c.(type) {
		case bool:
			if c {
				succ = 0
			}
		case symBool:
			if run.branch(c.t, fr.pos(instr)) {
				succ = 0
			}
		default:
			panic(fmt.Sprintf("If: bad cond %T", c))
		}
		fr.prevBlock, fr.block = fr.block, fr.block.Succs[succ]
		return kJump

	case *ssa.Jump:
		fr.prevBlock, fr.block = fr.block, fr.block.Succs[0]
		return kJump

	case *ssa.Defer:
		fn, args := prepareCall(fr, &instr.Call)
		defers := &fr.defers
		if into := fr.get(instr.DeferStack); into != nil {
			defers = into.(**deferred)
		}
		*defers = &deferred{fn: fn, args: args, instr: instr, tail: *defers}

	case *ssa.Go:
		fn, args := prepareCall(fr, &instr.Call)
		run.spawn(fr, fn, args)

	case *ssa.MakeChan:
		panic(unsupported("make chan"))

	case *ssa.Alloc:
		var addr *value
		if instr.Heap {
			addr = new(value)
			fr.regs[fr.fi.idx[instr]] = addr
		} else {
			addr = fr.regs[fr.fi.idx[instr]].(*value)
		}
		*addr = zero(mustDeref(instr.Type()))

	case *ssa.MakeSlice:
		cp := asInt64(run.concretizeOpt(fr, instr, fr.get(instr.Cap)))
		ln := asInt64(run.concretizeOpt(fr, instr, fr.get(instr.Len)))
		if ln < 0 || cp < ln {
			panic(targetPanic{"makeslice: len out of range", fr.pos(instr)})
		}
		if cp > 1<<26 {
			panic(unsupported("makeslice too large"))
		}
		slice := make([]value, cp)
		tElt := instr.Type().Underlying().(*types.Slice).Elem()
		for i := range slice {
			slice[i] = zero(tElt)
		}
		fr.regs[fr.fi.idx[instr]] = slice[:ln]

	case *ssa.MakeMap:
		fr.regs[fr.fi.idx[instr]] = makeMap(instr.Type().Underlying().(*types.Map).Key(), 0)

	case *ssa.Range:
		it := rangeIter(run, fr.get(instr.X))
		if run.freeMaps {
			if li, ok := it.(*listIter); ok && len(li.items) > 1 {
				run.permuteMapOrder(fr, instr, li)
			}
		}
		fr.regs[fr.fi.idx[instr]] = it

	case *ssa.Next:
		fr.regs[fr.fi.idx[instr]] = fr.get(instr.Iter).(iter).next()

	case *ssa.FieldAddr:
		switch x := fr.get(instr.X).(type) {
		case *value:
			if x == nil {
				panic(targetPanic{"invalid memory address or nil pointer dereference", fr.pos(instr)})
			}
			fr.regs[fr.fi.idx[instr]] = &(*x).(structure)[instr.Field]
		case *symPtr:
			np := &symPtr{idx: x.idx}
			for _, c := range x.cands {
				np.cands = append(np.cands, &(*c).(structure)[instr.Field])
			}
			fr.regs[fr.fi.idx[instr]] = np
		default:
			panic(fmt.Sprintf("FieldAddr on %T", x))
		}

	case *ssa.Field:
		fr.regs[fr.fi.idx[instr]] = fr.get(instr.X).(structure)[instr.Field]

	case *ssa.IndexAddr:
		x := fr.get(instr.X)
		idx := fr.get(instr.Index)
		var elems []value
		switch x := x.(type) {
		case []value:
			elems = x
		case *value:
			if x == nil {
				panic(targetPanic{"invalid memory address or nil pointer dereference", fr.pos(instr)})
			}
			elems = (*x).(array)
		default:
			panic(fmt.Sprintf("unexpected x type in IndexAddr: %T", x))
		}
		if si, ok := idx.(symInt); ok {
			fr.regs[fr.fi.idx[instr]] = run.symIndexAddr(fr, instr, elems, si)
		} else {
			i := asInt64(idx)
			if i < 0 || i >= int64(len(elems)) {
				panic(targetPanic{fmt.Sprintf("index out of range [%d] with length %d", i, len(elems)), fr.pos(instr)})
			}
			fr.regs[fr.fi.idx[instr]] = &elems[i]
		}

	case *ssa.Index:
		x := fr.get(instr.X)
		idx := fr.get(instr.Index)
		if si, ok := idx.(symInt); ok {
			fr.regs[fr.fi.idx[instr]] = run.symIndex(fr, instr, x, si)
			break
		}
		i := asInt64(idx)
		switch x := x.(type) {
		case array:
			if i < 0 || i >= int64(len(x)) {
				panic(targetPanic{fmt.Sprintf("index out of range [%d] with length %d", i, len(x)), fr.pos(instr)})
			}
			fr.regs[fr.fi.idx[instr]] = x[i]
		case string:
			if i < 0 || i >= int64(len(x)) {
				panic(targetPanic{fmt.Sprintf("index out of range [%d] with length %d", i, len(x)), fr.pos(instr)})
			}
			fr.regs[fr.fi.idx[instr]] = x[i]
		case *symStr:
			if i < 0 || i >= int64(len(x.b)) {
				panic(targetPanic{fmt.Sprintf("index out of range [%d] with length %d", i, len(x.b)), fr.pos(instr)})
			}
			fr.regs[fr.fi.idx[instr]] = x.b[i]
		default:
			panic(fmt.Sprintf("unexpected x type in Index: %T", x))
		}

	case *ssa.Lookup:
		fr.regs[fr.fi.idx[instr]] = run.lookup(fr, instr, fr.get(instr.X), fr.get(instr.Index))

	case *ssa.MapUpdate:
		m := fr.get(instr.Map)
		key := run.concretizeKey(fr, instr, fr.get(instr.Key))
		v := fr.get(instr.Value)
		switch m := m.(type) {
		case map[value]value:
			if m == nil {
				panic(targetPanic{"assignment to entry in nil map", fr.pos(instr)})
			}
			m[key] = v
		case *hashmap:
			if m == nil {
				panic(targetPanic{"assignment to entry in nil map", fr.pos(instr)})
			}
			m.insert(key.(hashable), v)
		default:
			panic(fmt.Sprintf("illegal map type: %T", m))
		}

	case *ssa.TypeAssert:
		fr.regs[fr.fi.idx[instr]] = typeAssert(fr, instr, fr.get(instr.X).(iface))

	case *ssa.MakeClosure:
		var bindings []value
		for _, binding := range instr.Bindings {
			bindings = append(bindings, fr.get(binding))
		}
		fr.regs[fr.fi.idx[instr]] = &closure{instr.Fn.(*ssa.Function), bindings}

	case *ssa.Phi:
		panic("unreachable: phi")

	case *ssa.Select:
		panic(unsupported("select"))

	default:
		panic(fmt.Sprintf("unexpected instruction: %T", instr))
	}
	return kNext
}

func prepareCall(fr *frame, call *ssa.CallCommon) (fn value, args []value) {
	v := fr.get(call.Value)
	if call.Method == nil {
		fn = v
	} else {
		recv := v.(iface)
		if recv.t == nil {
			panic(targetPanic{"invalid memory address or nil pointer dereference (method " + call.Method.Name() + " invoked on nil interface)", fr.fn.String()})
		}
		if f := lookupMethod(fr.i, recv.t, call.Method); f == nil {
			panic(fmt.Sprintf("method set for dynamic type %v does not contain %s", recv.t, call.Method))
		} else {
			fn = f
		}
		args = append(args, recv.v)
	}
	for _, arg := range call.Args {
		args = append(args, fr.get(arg))
	}
	return
}

func call(i *interpreter, caller *frame, callpos token.Pos, fn value, args []value) value {
	switch fn := fn.(type) {
	case *ssa.Function:
		if fn == nil {
			panic(targetPanic{"invalid memory address or nil pointer dereference (call of nil func)", ""})
		}
		return callSSA(i, caller, callpos, fn, args, nil)
	case *closure:
		return callSSA(i, caller, callpos, fn.Fn, args, fn.Env)
	case *ssa.Builtin:
		return callBuiltin(caller, fn, args)
	}
	panic(fmt.Sprintf("cannot call %T", fn))
}

func callSSA(i *interpreter, caller *frame, callpos token.Pos, fn *ssa.Function, args []value, env []value) value {
	fr := &frame{i: i, caller: caller, fn: fn}
	fr.fi = infoOf(fn)
	if fn.Parent() == nil {
		name := fr.fi.name
		if ext := i.run.intrinsic(name, fn); ext != nil {
			return ext(fr, args)
		}
		if fn.Name() == "init" && fn.Pkg != nil && fn.Signature.Recv() == nil && !i.initPkgs[fn.Pkg.Pkg.Path()] {
			return nil // initialisation of a package outside the interpreted set
		}
		if fn.Blocks == nil {
			panic(unsupported("no code for function: " + name))
		}
		if fd := i.run.summ[fn]; fd != nil {
			symArgs := false
			for _, a := range args {
				if isSym(a) {
					symArgs = true
				}
			}
			if symArgs {
				v := applySummary(i.run.pool, fd, fn, args)
				if s, ok := v.(symInt); ok && i.run.concFns[name] {
					return nativeOf(s.k, i.run.concretize(s.t, "result of "+name, i.run.cfg.ConcLimit))
				}
				return v
			}
		}
	}
	if fn.TypeParams().Len() > 0 && len(fn.TypeArgs()) == 0 {
		panic("uninstantiated generic function " + fn.String())
	}
	i.run.enter(fn)
	i.depth++
	if i.depth > 20000 {
		panic(pathEnd{kind: "UNWIND", msg: "call depth exceeded in " + fn.String()})
	}
	saved := i.cur
	i.cur = fr
	defer func() { i.depth-- }()

	if fr.fi.n > 64 {
		// big register files (coded tables such as advanceDFA) are recycled without clearing:
		// SSA guarantees every register is written before it is read
		if pl := i.regPool[fr.fi]; len(pl) > 0 {
			fr.regs = pl[len(pl)-1]
			i.regPool[fr.fi] = pl[:len(pl)-1]
		} else {
			fr.regs = make([]value, fr.fi.n)
		}
		defer func() { i.regPool[fr.fi] = append(i.regPool[fr.fi], fr.regs) }()
	} else {
		fr.regs = make([]value, fr.fi.n)
	}
	fr.block = fn.Blocks[0]
	fr.locals = make([]value, len(fn.Locals))
	for i, l := range fn.Locals {
		fr.locals[i] = zero(mustDeref(l.Type()))
		fr.set(l, &fr.locals[i])
	}
	for i, p := range fn.Params {
		fr.set(p, args[i])
	}
	for i, fv := range fn.FreeVars {
		fr.set(fv, env[i])
	}
	for fr.block != nil {
		runFrame(fr)
		i.cur = fr
	}
	i.cur = saved
	return fr.result
}

func runFrame(fr *frame) {
	defer func() {
		if fr.block == nil {
			return // normal return
		}
		r := recover()
		if isControl(r) {
			panic(r)
		}
		if fr.defers == nil && fr.fn.Recover == nil {
			panic(r) // nothing here can recover: keep unwinding
		}
		fr.panicking = true
		fr.panic = r
		fr.runDefers()
		fr.block = fr.fn.Recover
	}()

	for {
		nonPhis := executePhis(fr)
		for _, instr := range nonPhis {
			if visitInstr(fr, instr) == kReturn {
				return
			}
		}
	}
}

func executePhis(fr *frame) []ssa.Instruction {
	firstNonPhi := -1
	for i, instr := range fr.block.Instrs {
		if _, ok := instr.(*ssa.Phi); !ok {
			firstNonPhi = i
			break
		}
	}
	nonPhis := fr.block.Instrs[firstNonPhi:]
	if firstNonPhi > 0 {
		phis := fr.block.Instrs[:firstNonPhi]
		predIndex := slices.Index(fr.block.Preds, fr.prevBlock)
		fr.phitemps = fr.phitemps[:0]
		for _, phi := range phis {
			phi := phi.(*ssa.Phi)
			fr.phitemps = append(fr.phitemps, fr.get(phi.Edges[predIndex]))
		}
		for i, phi := range phis {
			fr.set(phi.(*ssa.Phi), fr.phitemps[i])
		}
	}
	return nonPhis
}

func doRecover(caller *frame) value {
	if caller != nil && !caller.panicking &&
		caller.caller != nil && caller.caller.panicking {
		caller.caller.panicking = false
		p := caller.caller.panic
		caller.caller.panic = nil
		switch p := p.(type) {
		case targetPanic:
			if v, ok := p.v.(iface); ok {
				return v
			}
			return iface{caller.i.runtimeErrorString, structure{fmt.Sprint(p.v)}}
		case runtime.Error:
			return iface{caller.i.runtimeErrorString, structure{p.Error()}}
		case string:
			return iface{caller.i.runtimeErrorString, structure{p}}
		default:
			panic(fmt.Sprintf("unexpected panic type %T in target call to recover()", p))
		}
	}
	return iface{}
}

// isControl reports whether a recovered panic value is engine control flow that
// target-level defer/recover must not intercept.
func isControl(r any) bool {
	switch r.(type) {
	case pathEnd, unsupportedPanic, exitPanic:
		return true
	}
	return false
}

func describePanic(r any) string {
	switch p := r.(type) {
	case targetPanic:
		return "panic: " + toString(p.v) + " at " + p.pos
	case runtime.Error:
		return "runtime error (interpreter-level): " + p.Error()
	case string:
		return "panic: " + p
	case error:
		return "panic: " + p.Error()
	}
	return strings.TrimSpace(fmt.Sprintf("panic: %T %v", r, r))
}
