// gosym: a bounded symbolic executor for Go programs in go/ssa form.
//
// It loads a package (with an overlay that injects harness files), runs one harness
// function over all feasible paths (decisions are taken by an SMT solver), discharges
// the harness's assertions and the implicit safety obligations as solver queries, and
// writes a JSON result with counterexamples as replayable input vectors.
package main

import (
	"encoding/json"
	"flag"
	"fmt"
	"go/types"
	"os"
	"runtime"
	"runtime/debug"
	"runtime/pprof"
	"sort"
	"strings"
	"sync"
	"time"

	"golang.org/x/tools/go/packages"
	"golang.org/x/tools/go/ssa"
	"golang.org/x/tools/go/ssa/ssautil"
)

type Config struct {
	Dir        string            `json:"dir"`
	Patterns   []string          `json:"patterns"`
	Overlay    map[string]string `json:"overlay"` // virtual path -> real file
	Tags       string            `json:"tags"`
	Pkg        string            `json:"pkg"`   // import path of the harness package
	Entry      string            `json:"entry"` // harness function name
	InitPkgs   []string          `json:"init_pkgs"`
	Summaries  []string          `json:"summaries"`  // functions to summarise ("pkgpath.Name")
	Concretize []string          `json:"concretize"` // summarised functions whose result is forked on
	Redirect   map[string]string `json:"redirect"`   // callee -> harness stub ("pkgpath.Name")
	MaxSteps   int               `json:"max_steps"`
	ConcLimit  int               `json:"conc_limit"`
	Workers    int               `json:"workers"`
	TimeoutMs  int               `json:"timeout_ms"`
	Solver     string            `json:"solver"`
	Cross      []string          `json:"cross"`
	MaxPaths   int               `json:"max_paths"`
	MaxViol    int               `json:"max_violations"`
	Out        string            `json:"out"`
	Env        []string          `json:"env"`
	Deadline   int               `json:"deadline_s"`
	Validate   int               `json:"validate_vectors"`
	Opaque     []string          `json:"opaque"` // callees replaced by "returns the zero value"
	opaque     map[string]bool
	MemLimitMB  int      `json:"mem_limit_mb"` // a path that pushes the heap beyond this is abandoned as UNWIND
	Watch       []string `json:"watch"`        // two-thread mode: functions (name prefixes) with preemption points
	MaxSwitches int      `json:"max_switches"` // two-thread mode: bound on context switches
	MapOrder    []string `json:"map_order"`    // functions (name substrings) in which the iteration order of Go maps is a free decision (while verif.FreeMapOrder(true))
	MaxOrderSites int    `json:"max_order_sites"` // at most this many traversals per path get an order other than the sorted one (default 1)
	MaxMapPerm  int      `json:"max_map_perm"` // only the first max_map_perm entries of a ranged map are permuted (default 4)
	OpaquePkgs []string `json:"opaque_pkgs"` // every function of these packages returns the zero value
	opaquePkg  map[string]bool

	prog   *ssa.Program
	pkgs   map[string]*ssa.Package
	mu     sync.Mutex
	stubs  map[string]int
	initOK map[string]bool
}

func workersDefault() int {
	// the sandbox's 16 CPUs are 8 cores with two hardware threads: solver throughput peaks near 10 workers
	n := runtime.NumCPU() * 5 / 8
	if n < 1 {
		n = 1
	}
	return n
}

func (c *Config) usedStub(name string) {
	c.mu.Lock()
	c.stubs[name]++
	c.mu.Unlock()
}

func (c *Config) lookupFunc(qual string) *ssa.Function {
	i := strings.LastIndex(qual, ".")
	if i < 0 {
		return nil
	}
	pkg := c.pkgs[qual[:i]]
	if pkg == nil {
		return nil
	}
	return pkg.Func(qual[i+1:])
}

type PathStat struct {
	End   string `json:"end"`
	Steps int    `json:"steps"`
}

type Result struct {
	Entry        string         `json:"entry"`
	Pkg          string         `json:"pkg"`
	Paths        int            `json:"paths"`
	PathsDone    int            `json:"paths_completed"`
	PathsAssumed int            `json:"paths_assumed_away"`
	PathsUnwind  int            `json:"paths_unwind"`
	PathsPanic   int            `json:"paths_panic"`
	PathsExit    int            `json:"paths_exit"`
	Queries      int            `json:"solver_queries"`
	QSat         int            `json:"queries_sat"`
	QUnsat       int            `json:"queries_unsat"`
	QUnknown     int            `json:"queries_unknown"`
	SolverS      float64        `json:"solver_seconds"`
	CrossQueries int            `json:"cross_solver_queries"`
	WallS        float64        `json:"wall_seconds"`
	LoadS        float64        `json:"load_seconds"`
	Steps        int64          `json:"instructions_interpreted"`
	Asserts      int            `json:"assertions_checked"`
	Obligations  int            `json:"obligations_checked"`
	Reached      map[string]int `json:"reached"`
	QKinds       map[string]int `json:"query_kinds"`
	Functions    []string       `json:"functions"`
	Stubs        map[string]int `json:"stubs_called"`
	Summaries    []SummaryInfo  `json:"summaries"`
	Violations   []Violation    `json:"violations"`
	Inconclusive []string       `json:"inconclusive"`
	Truncated    bool           `json:"truncated"`
	Samples      []PathSample   `json:"samples"`
	Solver       string         `json:"solver"`
	Cross        []string       `json:"cross_solvers"`
	MaxSteps     int            `json:"max_steps"`
}

type SummaryInfo struct {
	Func      string `json:"func"`
	Blocks    int    `json:"blocks"`
	TermNodes int    `json:"term_nodes"`
	Validated int    `json:"validated_vectors"`
}

type PathSample struct {
	Trace  []int64    `json:"trace"`
	Inputs []InputVar `json:"inputs"`
	End    string     `json:"end"`
	PCSize int        `json:"pc_conjuncts"`
}

type shared struct {
	mu       sync.Mutex
	cond     *sync.Cond
	queue    []WorkItem
	active   int
	res      *Result
	stop     bool
	funcs    map[string]bool
	viols    map[string]bool
	deadline time.Time
}

func main() {
	cfgPath := flag.String("config", "", "JSON config file")
	prof := flag.String("cpuprofile", os.Getenv("GOSYM_PROFILE"), "write a CPU profile")
	flag.Parse()
	if *prof != "" {
		f, _ := os.Create(*prof)
		pprof.StartCPUProfile(f)
		defer pprof.StopCPUProfile()
	}
	if *cfgPath == "" {
		fmt.Fprintln(os.Stderr, "usage: gosym -config file.json")
		os.Exit(2)
	}
	data, err := os.ReadFile(*cfgPath)
	if err != nil {
		fmt.Fprintln(os.Stderr, err)
		os.Exit(2)
	}
	cfg := &Config{MaxSteps: 2000000, ConcLimit: 300, Workers: workersDefault(), TimeoutMs: 60000, Solver: "z3-new", MaxPaths: 5000000, MaxViol: 20, Validate: 400, MemLimitMB: 12000}
	if err := json.Unmarshal(data, cfg); err != nil {
		fmt.Fprintln(os.Stderr, "config:", err)
		os.Exit(2)
	}
	cfg.stubs = map[string]int{}
	cfg.opaque = map[string]bool{}
	for _, o := range cfg.Opaque {
		cfg.opaque[o] = true
	}
	cfg.opaquePkg = map[string]bool{}
	for _, o := range cfg.OpaquePkgs {
		cfg.opaquePkg[o] = true
	}
	debug.SetGCPercent(800)
	start := time.Now()
	if err := loadProgram(cfg); err != nil {
		fmt.Fprintln(os.Stderr, "load:", err)
		os.Exit(2)
	}
	res := &Result{Entry: cfg.Entry, Pkg: cfg.Pkg, Reached: map[string]int{}, Solver: cfg.Solver, Cross: cfg.Cross, MaxSteps: cfg.MaxSteps}
	res.LoadS = time.Since(start).Seconds()

	pkg := cfg.pkgs[cfg.Pkg]
	if pkg == nil {
		fmt.Fprintln(os.Stderr, "package not loaded:", cfg.Pkg)
		os.Exit(2)
	}
	entry := pkg.Func(cfg.Entry)
	if entry == nil {
		fmt.Fprintln(os.Stderr, "entry not found:", cfg.Entry)
		os.Exit(2)
	}

	sh := &shared{res: res, funcs: map[string]bool{}, viols: map[string]bool{}}
	sh.cond = sync.NewCond(&sh.mu)
	sh.queue = []WorkItem{{}}
	if cfg.Deadline > 0 {
		sh.deadline = start.Add(time.Duration(cfg.Deadline) * time.Second)
	}
	var wg sync.WaitGroup
	for w := 0; w < cfg.Workers; w++ {
		wg.Add(1)
		go func(id int) {
			defer wg.Done()
			worker(id, cfg, sh, entry)
		}(w)
	}
	wg.Wait()
	for f := range sh.funcs {
		res.Functions = append(res.Functions, f)
	}
	sort.Strings(res.Functions)
	res.Stubs = cfg.stubs
	res.WallS = time.Since(start).Seconds()
	sort.Strings(res.Inconclusive)
	out, _ := json.MarshalIndent(res, "", " ")
	if cfg.Out != "" {
		os.WriteFile(cfg.Out, out, 0o644)
	} else {
		os.Stdout.Write(out)
	}
	fmt.Fprintf(os.Stderr, "gosym %s: paths=%d done=%d assumed=%d unwind=%d panic=%d queries=%d (sat %d unsat %d unknown %d) violations=%d inconclusive=%d wall=%.1fs\n",
		cfg.Entry, res.Paths, res.PathsDone, res.PathsAssumed, res.PathsUnwind, res.PathsPanic, res.Queries, res.QSat, res.QUnsat, res.QUnknown, len(res.Violations), len(res.Inconclusive), res.WallS)
}

func loadProgram(cfg *Config) error {
	overlay := map[string][]byte{}
	for virt, real := range cfg.Overlay {
		b, err := os.ReadFile(real)
		if err != nil {
			return err
		}
		overlay[virt] = b
	}
	pc := &packages.Config{
		Mode:    packages.LoadAllSyntax,
		Dir:     cfg.Dir,
		Overlay: overlay,
		Env:     append(os.Environ(), cfg.Env...),
	}
	if cfg.Tags != "" {
		pc.BuildFlags = []string{"-tags=" + cfg.Tags}
	}
	pkgs, err := packages.Load(pc, cfg.Patterns...)
	if err != nil {
		return err
	}
	var errs []string
	packages.Visit(pkgs, nil, func(p *packages.Package) {
		for _, e := range p.Errors {
			errs = append(errs, e.Error())
		}
	})
	if len(errs) > 0 {
		return fmt.Errorf("package errors:\n%s", strings.Join(errs, "\n"))
	}
	prog, _ := ssautil.AllPackages(pkgs, ssa.InstantiateGenerics|ssa.SanityCheckFunctions)
	prog.Build()
	cfg.prog = prog
	cfg.pkgs = map[string]*ssa.Package{}
	for _, p := range prog.AllPackages() {
		cfg.pkgs[p.Pkg.Path()] = p
	}
	return nil
}

func (cfg *Config) wantInit(path string) bool {
	for _, p := range cfg.InitPkgs {
		if p == path || strings.HasSuffix(p, "...") && strings.HasPrefix(path, strings.TrimSuffix(p, "...")) {
			return true
		}
	}
	return false
}

func worker(id int, cfg *Config, sh *shared, entry *ssa.Function) {
	pool := NewPool()
	solver, err := NewSolver(cfg.Solver, pool, cfg.TimeoutMs)
	if err != nil {
		sh.mu.Lock()
		sh.res.Inconclusive = append(sh.res.Inconclusive, "cannot start solver: "+err.Error())
		sh.stop = true
		sh.cond.Broadcast()
		sh.mu.Unlock()
		return
	}
	defer solver.Close()
	var extra []*Solver
	for _, x := range cfg.Cross {
		s, err := NewSolver(x, pool, cfg.TimeoutMs)
		if err == nil {
			extra = append(extra, s)
			defer s.Close()
		}
	}
	// summaries for this worker's pool
	summ := map[*ssa.Function]*FuncDef{}
	concFns := map[string]bool{}
	for _, c := range cfg.Concretize {
		concFns[c] = true
	}
	var sinfo []SummaryInfo
	func() {
		defer func() {
			if r := recover(); r != nil {
				sh.mu.Lock()
				sh.res.Inconclusive = appendUnique(sh.res.Inconclusive, fmt.Sprintf("summary construction failed: %v", r))
				sh.stop = true
				sh.cond.Broadcast()
				sh.mu.Unlock()
			}
		}()
		// callees of a summarised function are summarised on demand (helpers a refactoring may introduce);
		// a function that cannot be summarised is simply interpreted
		inProgress := map[*ssa.Function]bool{}
		var lookup func(f *ssa.Function) *FuncDef
		try := func(f *ssa.Function) (fd *FuncDef) {
			defer func() {
				if r := recover(); r != nil {
					fd = nil
				}
			}()
			return buildSummary(pool, f, lookup)
		}
		lookup = func(f *ssa.Function) *FuncDef {
			if fd, ok := summ[f]; ok {
				return fd
			}
			if inProgress[f] || f.Blocks == nil {
				return nil
			}
			inProgress[f] = true
			fd := try(f)
			delete(inProgress, f)
			if fd != nil {
				summ[f] = fd
				sinfo = append(sinfo, SummaryInfo{Func: f.String() + " (callee, summarised on demand)", Blocks: len(f.Blocks), TermNodes: fd.body.Size()})
			}
			return fd
		}
		for _, q := range cfg.Summaries {
			fn := cfg.lookupFunc(q)
			if fn == nil {
				panic("summary function not found: " + q)
			}
			fd := try(fn)
			if fd == nil {
				sinfo = append(sinfo, SummaryInfo{Func: q + " (not summarisable: interpreted)", Blocks: len(fn.Blocks)})
				continue
			}
			summ[fn] = fd
			sinfo = append(sinfo, SummaryInfo{Func: q, Blocks: len(fn.Blocks), TermNodes: fd.body.Size()})
		}
	}()
	if id == 0 {
		for _, q := range cfg.Summaries {
			fn := cfg.lookupFunc(q)
			i := -1
			for k := range sinfo {
				if sinfo[k].Func == q {
					i = k
				}
			}
			if fn != nil && summ[fn] != nil && i >= 0 {
				n, bad := validateSummary(cfg, pool, solver, fn, summ[fn], cfg.Validate)
				sinfo[i].Validated = n
				if bad != "" {
					sh.mu.Lock()
					sh.res.Inconclusive = appendUnique(sh.res.Inconclusive, "summary validation failed: "+bad)
					sh.mu.Unlock()
				}
			}
		}
		sh.mu.Lock()
		sh.res.Summaries = sinfo
		sh.mu.Unlock()
	}

	methCache := map[methKey]*ssa.Function{}
	for {
		sh.mu.Lock()
		for len(sh.queue) == 0 && sh.active > 0 && !sh.stop {
			sh.cond.Wait()
		}
		if sh.stop || (len(sh.queue) == 0 && sh.active == 0) {
			sh.cond.Broadcast()
			sh.mu.Unlock()
			break
		}
		item := sh.queue[len(sh.queue)-1]
		sh.queue = sh.queue[:len(sh.queue)-1]
		sh.active++
		sh.res.Paths++
		if sh.res.Paths >= cfg.MaxPaths || (!sh.deadline.IsZero() && time.Now().After(sh.deadline)) {
			sh.res.Truncated = true
			sh.res.Inconclusive = appendUnique(sh.res.Inconclusive, "exploration truncated (max_paths or deadline)")
			sh.stop = true
		}
		sh.mu.Unlock()

		run := &Run{cfg: cfg, pool: pool, solver: solver, extra: extra, prefix: item.prefix, model: item.model,
			reached: map[string]int{}, funcs: map[string]bool{}, summ: summ, concFns: concFns,
			fnset: map[*ssa.Function]bool{}, methCache: methCache, intrCache: map[*ssa.Function]externalFn{}, intrKnown: map[*ssa.Function]bool{}}
		end := runPath(cfg, run, entry)

		sh.mu.Lock()
		sh.active--
		sh.queue = append(sh.queue, run.forks...)
		r := sh.res
		switch end.kind {
		case "DONE":
			r.PathsDone++
		case "ASSUME":
			r.PathsAssumed++
		case "UNWIND":
			r.PathsUnwind++
			r.Inconclusive = appendUnique(r.Inconclusive, "UNWIND: "+end.msg)
		case "PANIC":
			r.PathsPanic++
		case "EXIT":
			r.PathsExit++
			r.PathsDone++
		case "UNSUPPORTED":
			r.Inconclusive = appendUnique(r.Inconclusive, "UNSUPPORTED: "+end.msg)
		case "VIOLATION-STOP":
			r.PathsDone++
		}
		for _, n := range run.notes {
			r.Inconclusive = appendUnique(r.Inconclusive, n)
		}
		for k, v := range run.reached {
			r.Reached[k] += v
		}
		if r.QKinds == nil {
			r.QKinds = map[string]int{}
		}
		for k, v := range run.qkinds {
			r.QKinds[k] += v
		}
		for f := range run.fnset {
			sh.funcs[infoOf(f).name] = true
		}
		r.Steps += int64(run.steps)
		r.Asserts += run.asserts
		r.Obligations += run.obligs
		for _, v := range run.viols {
			key := v.Kind + "|" + v.Msg + "|" + v.Pos
			if !sh.viols[key] || len(r.Violations) < cfg.MaxViol {
				if !sh.viols[key] || countKey(r.Violations, key) < 3 {
					r.Violations = append(r.Violations, v)
				}
				sh.viols[key] = true
			}
		}
		if len(r.Samples) < 12 && (end.kind == "DONE" || end.kind == "EXIT") {
			ps := PathSample{Trace: run.trace, End: end.kind + " " + end.msg, PCSize: len(run.pc)}
			m := run.ensureModelQuiet()
			for _, in := range run.inputs {
				c := *in
				c.term = nil
				if in.conc {
					c.Value = in.cval
				} else if m != nil {
					c.Value = m[in.Name]
				}
				ps.Inputs = append(ps.Inputs, c)
			}
			r.Samples = append(r.Samples, ps)
		}
		sh.cond.Broadcast()
		sh.mu.Unlock()
	}
	sh.mu.Lock()
	sh.res.Queries += solver.Queries
	sh.res.QSat += solver.NSat
	sh.res.QUnsat += solver.NUnsat
	sh.res.QUnknown += solver.NUnknown
	sh.res.SolverS += solver.Seconds
	for _, x := range extra {
		sh.res.CrossQueries += x.Queries
	}
	sh.mu.Unlock()
}

func countKey(vs []Violation, key string) int {
	n := 0
	for _, v := range vs {
		if v.Kind+"|"+v.Msg+"|"+v.Pos == key {
			n++
		}
	}
	return n
}

func appendUnique(xs []string, s string) []string {
	for _, x := range xs {
		if x == s {
			return xs
		}
	}
	if len(xs) > 40 {
		return xs
	}
	return append(xs, s)
}

func (r *Run) ensureModelQuiet() (m map[string]uint64) {
	defer func() {
		if recover() != nil {
			m = nil
		}
	}()
	return r.ensureModel()
}

// runPath executes the harness once along the run's decision prefix.
func runPath(cfg *Config, run *Run, entry *ssa.Function) (end pathEnd) {
	i := &interpreter{prog: cfg.prog, globals: map[*ssa.Global]*value{}, sizes: nil, run: run, initPkgs: map[string]bool{}, regPool: map[*funcInfo][][]value{}}
	if rt := cfg.prog.ImportedPackage("runtime"); rt != nil {
		if t := rt.Type("errorString"); t != nil {
			i.runtimeErrorString = t.Type()
		}
	}
	for path := range cfg.pkgs {
		if cfg.wantInit(path) {
			i.initPkgs[path] = true
		}
	}
	defer func() {
		if r := recover(); r != nil {
			switch p := r.(type) {
			case pathEnd:
				end = p
			case unsupportedPanic:
				end = pathEnd{kind: "UNSUPPORTED", msg: p.msg + " [" + i.stack(4) + "]"}
			case exitPanic:
				code := int(p)
				run.exitCode = &code
				end = pathEnd{kind: "EXIT", msg: fmt.Sprintf("os.Exit(%d)", code)}
			case targetPanic:
				run.violation("panic", "panic: "+toString(p.v), p.pos+" ["+i.stack(6)+"]", run.ensureModelQuiet())
				end = pathEnd{kind: "PANIC", msg: toString(p.v)}
			case runtime.Error:
				// a Go runtime error inside the interpreter: either the target's own
				// runtime panic or an engine defect; native replay decides.
				stack := string(debug.Stack())
				run.violation("panic", "runtime error: "+p.Error(), shortStack(stack)+" ["+i.stack(6)+"]", run.ensureModelQuiet())
				end = pathEnd{kind: "PANIC", msg: p.Error()}
			default:
				stack := string(debug.Stack())
				end = pathEnd{kind: "UNSUPPORTED", msg: fmt.Sprintf("engine panic: %v @ %s [%s]", r, shortStack(stack), i.stack(6))}
			}
		}
	}()
	defer func() {
		if run.threads != nil {
			run.threads.stop()
		}
	}()
	// package initialisation (only the interpreted set), in dependency order via the harness package
	for _, p := range sortedInitPkgs(cfg, i) {
		if f := p.Func("init"); f != nil {
			call(i, nil, 0, f, nil)
		}
	}
	run.steps = 0
	call(i, nil, 0, entry, nil)
	if run.threads != nil {
		run.threads.wait(run, nil)
	}
	return pathEnd{kind: "DONE"}
}

func sortedInitPkgs(cfg *Config, i *interpreter) []*ssa.Package {
	// the harness package's init reaches every dependency that is in the interpreted set,
	// because init functions call their imports' init first; packages outside the import
	// closure of the harness package are not needed.
	var out []*ssa.Package
	if p := cfg.pkgs[cfg.Pkg]; p != nil {
		i.initPkgs[cfg.Pkg] = true
		out = append(out, p)
	}
	return out
}

func shortStack(s string) string {
	lines := strings.Split(s, "\n")
	var keep []string
	for _, l := range lines {
		if strings.Contains(l, "gosym/") && !strings.Contains(l, "main.go") {
			keep = append(keep, strings.TrimSpace(l))
		}
		if len(keep) >= 4 {
			break
		}
	}
	return strings.Join(keep, " <- ")
}

// validateSummary compares the summary term with the concrete interpretation of fn on
// vectors built from the function's own constants (and their neighbours).
func validateSummary(cfg *Config, pool *TermPool, solver *Solver, fn *ssa.Function, fd *FuncDef, limit int) (int, string) {
	consts := intConsts(fn)
	var cand []int64
	seen := map[int64]bool{}
	for _, c := range consts {
		for _, d := range []int64{-1, 0, 1} {
			if !seen[c+d] {
				seen[c+d] = true
				cand = append(cand, c+d)
			}
		}
	}
	sort.Slice(cand, func(a, b int) bool { return cand[a] < cand[b] })
	if len(cand) == 0 {
		cand = []int64{0, 1, -1}
	}
	n := len(fn.Params)
	count := 0
	// pseudo-random walk over the product
	seed := uint64(88172645463325252)
	next := func() uint64 { seed ^= seed << 13; seed ^= seed >> 7; seed ^= seed << 17; return seed }
	for count < limit {
		args := make([]value, n)
		env := map[string]uint64{}
		for j, p := range fn.Params {
			k, _ := scalarKind(p.Type())
			c := cand[next()%uint64(len(cand))]
			if k == types.Bool {
				args[j] = c&1 == 1
				env[fd.params[j].name] = uint64(c & 1)
			} else {
				args[j] = nativeOf(k, uint64(c))
				env[fd.params[j].name] = uint64(c) & mask(kindWidth(k))
			}
		}
		run := &Run{cfg: cfg, pool: pool, solver: solver, reached: map[string]int{}, funcs: map[string]bool{},
			fnset: map[*ssa.Function]bool{}, methCache: map[methKey]*ssa.Function{}, intrCache: map[*ssa.Function]externalFn{}, intrKnown: map[*ssa.Function]bool{}}
		var got value
		var failed string
		func() {
			defer func() {
				if r := recover(); r != nil {
					failed = fmt.Sprint(r)
				}
			}()
			i := &interpreter{prog: cfg.prog, globals: map[*ssa.Global]*value{}, run: run, initPkgs: map[string]bool{}, regPool: map[*funcInfo][][]value{}}
			got = callSSA(i, nil, 0, fn, args, nil)
		}()
		if failed != "" {
			return count, fmt.Sprintf("%s: concrete run failed: %s", fn, failed)
		}
		want := pool.Eval(fd.body, env, map[int]uint64{})
		var g uint64
		if b, ok := got.(bool); ok {
			if b {
				g = 1
			}
		} else {
			g = uint64(asInt64(got)) & mask(maxInt(fd.w, 1))
		}
		if g != want {
			return count, fmt.Sprintf("%s%v: real=%d summary=%d", fn, args, g, want)
		}
		count++
	}
	return count, ""
}
