package main

// Two-thread mode (C17).  Placeholder until the scheduler is built: harnesses that
// spawn threads are reported as unsupported.

import "golang.org/x/tools/go/ssa"

type threadState struct{}

func newThreadState() *threadState { return &threadState{} }

func (t *threadState) maybeSwitch(r *Run, fr *frame, instr ssa.Instruction) {}
func (t *threadState) spawn(r *Run, fr *frame, fn value, args []value) {
	panic(unsupported("threads not implemented"))
}
func (t *threadState) yield(r *Run, fr *frame)                          {}
func (t *threadState) wait(r *Run, fr *frame)                           {}
func (t *threadState) lockEvent(r *Run, fr *frame, m value, lock bool)  {}
