package main

// Two-thread mode (C17): harness threads are coroutines (one goroutine each, exactly one runs at a
// time).  At every preemption point - a call, load, store or map access executed inside a watched
// function - the schedule may switch to another runnable thread; each such choice is a path decision,
// so the exploration enumerates all schedules with at most cfg.MaxSwitches context switches.

import (
	"fmt"
	"os"
	"go/token"
	"go/types"
	"runtime"
	"strings"

	"golang.org/x/tools/go/ssa"
)

type thread struct {
	id     int
	resume chan struct{}
	done   bool
	fn     value
	// interpreter state that belongs to the thread
	cur   *frame
	depth int
}

type threadState struct {
	threads  []*thread
	cur      *thread
	switches int
	quit     chan struct{}
	panicVal any
	held     map[*value]int // mutex -> thread id
	points   int
	interp   *interpreter
}

func newThreadState() *threadState {
	ts := &threadState{quit: make(chan struct{}), held: map[*value]int{}}
	main := &thread{id: 0, resume: make(chan struct{}, 1)}
	ts.threads = []*thread{main}
	ts.cur = main
	return ts
}

func (ts *threadState) watched(r *Run, fn *ssa.Function) bool {
	name := infoOf(fn).name
	for _, w := range r.cfg.Watch {
		if strings.HasPrefix(name, w) || strings.Contains(name, w) {
			return true
		}
	}
	return false
}

// spawn registers a new thread that will run fn() when first scheduled.
func (ts *threadState) spawn(r *Run, fr *frame, fn value, args []value) {
	t := &thread{id: len(ts.threads), resume: make(chan struct{}, 1), fn: fn}
	ts.threads = append(ts.threads, t)
	ts.interp = fr.i
	go func() {
		select {
		case <-t.resume:
		case <-ts.quit:
			return
		}
		defer func() {
			if p := recover(); p != nil {
				ts.panicVal = p
			}
			t.done = true
			// hand the baton on: another unfinished spawned thread, else the main thread; when the order
			// of completion is a decision of the path (verif.FreeMapOrder), always the main thread, whose
			// wait loop chooses
			next := ts.threads[0]
			if !r.freeMaps {
				for _, o := range ts.threads[1:] {
					if !o.done {
						next = o
						break
					}
				}
			}
			if ts.panicVal != nil {
				next = ts.threads[0]
			}
			ts.activate(next)
		}()
		call(ts.interp, nil, token.NoPos, t.fn, args)
	}()
}

func (ts *threadState) activate(t *thread) {
	ts.cur = t
	ts.interp.cur, ts.interp.depth = t.cur, t.depth
	t.resume <- struct{}{}
}

// switchTo parks the current thread and runs t until the baton comes back.
func (ts *threadState) switchTo(t *thread) {
	me := ts.cur
	me.cur, me.depth = ts.interp.cur, ts.interp.depth
	ts.activate(t)
	select {
	case <-me.resume:
	case <-ts.quit:
		runtime.Goexit()
	}
	if ts.panicVal != nil && me.id == 0 {
		p := ts.panicVal
		ts.panicVal = nil
		panic(p)
	}
}

func (ts *threadState) runnableOther() *thread {
	for _, o := range ts.threads[1:] {
		if !o.done && o != ts.cur {
			return o
		}
	}
	return nil
}

// maybeSwitch is called before every instruction.
func (ts *threadState) maybeSwitch(r *Run, fr *frame, instr ssa.Instruction) {
	if ts.cur.id == 0 || ts.interp == nil {
		return // the main thread only runs while the others are parked or finished
	}
	switch in := instr.(type) {
	case *ssa.Call, *ssa.Store, *ssa.MapUpdate, *ssa.Lookup:
	case *ssa.UnOp:
		if in.Op != token.MUL {
			return
		}
	default:
		return
	}
	if !ts.watched(r, fr.fn) {
		return
	}
	if ts.switches >= r.cfg.MaxSwitches {
		return
	}
	o := ts.runnableOther()
	if o == nil {
		return
	}
	ts.points++
	if r.freeChoice() {
		ts.switches++
		r.tags = append(r.tags, fmt.Sprintf("switch@%s:%s", infoOf(fr.fn).name, fr.pos(instr)))
		ts.switchTo(o)
	}
}

func (ts *threadState) yield(r *Run, fr *frame) {}

// wait runs the spawned threads to completion (called by the main thread).
func (ts *threadState) wait(r *Run, fr *frame) {
	if ts.interp == nil {
		return
	}
	for {
		var next *thread
		var waiting []*thread
		for _, o := range ts.threads[1:] {
			if !o.done {
				waiting = append(waiting, o)
			}
		}
		if len(waiting) == 0 {
			break
		}
		next = waiting[0]
		if r.freeMaps && len(waiting) > 1 {
			// which goroutine runs (and so finishes) next is a decision of the path
			k := 0
			for k < len(waiting)-1 && r.freeChoice() {
				k++
			}
			next = waiting[k]
			if k > 0 {
				r.tags = append(r.tags, fmt.Sprintf("goroutine %d runs before goroutine %d", waiting[k].id, waiting[0].id))
			}
			if !r.replaying() {
				r.reached["goroutine order decided"]++
			}
		}
		ts.switchTo(next)
	}
	if ts.panicVal != nil {
		p := ts.panicVal
		ts.panicVal = nil
		panic(p)
	}
}

// stop releases every parked goroutine at the end of a path.
func (ts *threadState) stop() {
	close(ts.quit)
}

func (ts *threadState) lockEvent(r *Run, fr *frame, m value, lock bool) {
	p, ok := m.(*value)
	if !ok || p == nil {
		return
	}
	if lock {
		for {
			holder, held := ts.held[p]
			if !held || holder == ts.cur.id {
				break
			}
			// blocked: run the holder (a forced switch, not counted against the bound)
			var h *thread
			for _, o := range ts.threads {
				if o.id == holder && !o.done {
					h = o
				}
			}
			if h == nil || ts.interp == nil {
				panic(pathEnd{kind: "ASSUME", msg: "deadlock on a mutex"})
			}
			ts.switchTo(h)
		}
		ts.held[p] = ts.cur.id
	} else {
		delete(ts.held, p)
	}
}

// freeChoice is a path decision that is always feasible both ways (no solver call).
func (r *Run) freeChoice() bool {
	if len(r.trace) < len(r.prefix) {
		d := r.prefix[len(r.trace)]
		r.trace = append(r.trace, d)
		return d == 1
	}
	np := append(append([]int64{}, r.trace...), 1)
	r.forks = append(r.forks, WorkItem{prefix: np, model: r.model})
	r.trace = append(r.trace, 0)
	return false
}

// permuteMapOrder makes the iteration order of a ranged Go map a free decision of the path (inside the
// functions named by cfg.MapOrder, while verif.FreeMapOrder(true) is in force): every permutation of the
// first cfg.MaxMapPerm entries is explored.  The first path keeps the sorted order.
func (r *Run) permuteMapOrder(fr *frame, instr *ssa.Range, li *listIter) {
	if _, isMap := instr.X.Type().Underlying().(*types.Map); !isMap {
		return
	}
	name := infoOf(fr.fn).name
	hit := false
	for _, w := range r.cfg.MapOrder {
		if strings.Contains(name, w) {
			hit = true
		}
	}
	if !hit {
		return
	}
	if !r.orderBudget() {
		return
	}
	n := len(li.items)
	lim := r.cfg.MaxMapPerm
	if lim <= 0 {
		lim = 4
	}
	if n > lim {
		if !r.replaying() {
			r.reached["map order: only the first entries permuted (bound max_map_perm)"]++
		}
		n = lim
	}
	perm := ""
	for i := 0; i < n-1; i++ {
		j := i
		for j < n-1 && r.freeChoice() {
			j++
		}
		li.items[i], li.items[j] = li.items[j], li.items[i]
		perm += fmt.Sprint(j)
	}
	if len(li.items) > n && r.freeChoice() {
		// a larger map: the complete reversal is explored too (it flips the relative order of every pair)
		for a, b := 0, len(li.items)-1; a < b; a, b = a+1, b-1 {
			li.items[a], li.items[b] = li.items[b], li.items[a]
		}
		perm += "r"
	}
	if !identityPerm(perm) {
		r.orderSites++
	}
	if !r.replaying() {
		r.reached["map order decided"]++
	}
	r.tags = append(r.tags, fmt.Sprintf("maporder@%s:%s=%s", name, fr.pos(instr), perm))
}

// libraryShuffle models (*math/rand.Rand).Shuffle(n, swap).  It is the identity except where the
// containers of moorara/algo (hash tables, sets) shuffle their traversal order on behalf of a function named
// by cfg.MapOrder while verif.FreeMapOrder(true) is in force: there the traversal order is a decision of the
// path - every permutation when n <= cfg.MaxMapPerm, the identity and the complete reversal otherwise
// (the reversal flips the relative order of every pair of entries).
func (r *Run) libraryShuffle(fr *frame, n int, swap value) {
	if !r.freeMaps || n < 2 {
		return
	}
	c := fr.caller
	for c != nil {
		p := fnPkgPath(c.fn)
		if strings.HasSuffix(p, "/symboltable") || strings.HasSuffix(p, "/set") {
			c = c.caller
			continue
		}
		break
	}
	if c == nil {
		return
	}
	name := infoOf(c.fn).name
	if os.Getenv("GOSYM_DEBUG_SHUFFLE") != "" {
		fmt.Fprintf(os.Stderr, "shuffle n=%d on behalf of %s (pkg %s)\n", n, name, fnPkgPath(c.fn))
	}
	hit := false
	for _, w := range r.cfg.MapOrder {
		if strings.Contains(name, w) {
			hit = true
		}
	}
	if !hit {
		return
	}
	if !r.orderBudget() {
		return
	}
	lim := r.cfg.MaxMapPerm
	if lim <= 0 {
		lim = 4
	}
	doSwap := func(i, j int) {
		if i != j {
			call(fr.i, fr, token.NoPos, swap, []value{i, j})
		}
	}
	perm := ""
	if n <= lim {
		for i := 0; i < n-1; i++ {
			j := i
			for j < n-1 && r.freeChoice() {
				j++
			}
			doSwap(i, j)
			perm += fmt.Sprint(j)
		}
	} else if r.freeChoice() {
		for a, b := 0, n-1; a < b; a, b = a+1, b-1 {
			doSwap(a, b)
		}
		perm = "reversed"
	}
	if perm == "reversed" || !identityPerm(perm) {
		r.orderSites++
	}
	if !r.replaying() {
		r.reached["library traversal order decided"]++
	}
	r.tags = append(r.tags, fmt.Sprintf("shuffle@%s=%s", name, perm))
}

// fnPkgPath: the package a function belongs to (instantiations of generic functions have no package of
// their own; their origin has).
func fnPkgPath(fn *ssa.Function) string {
	if fn.Pkg != nil {
		return fn.Pkg.Pkg.Path()
	}
	if o := fn.Origin(); o != nil && o.Pkg != nil {
		return o.Pkg.Pkg.Path()
	}
	if p := fn.Parent(); p != nil {
		return fnPkgPath(p)
	}
	return ""
}

// orderBudget: may this traversal still be given a non-sorted order on this path?
func (r *Run) orderBudget() bool {
	lim := r.cfg.MaxOrderSites
	if lim <= 0 {
		lim = 1
	}
	return r.orderSites < lim
}

// identityPerm: a selection string "j0 j1 ..." (position i takes the element at j_i >= i) is the identity
// iff every digit equals its index.
func identityPerm(perm string) bool {
	for i, c := range perm {
		if c == 'r' {
			return false
		}
		if int(c-'0') != i {
			return false
		}
	}
	return true
}

// librarySortShuffle models the time-seeded shuffle with which moorara/algo's quick sort starts: the
// identity, except for sorts called by a function named by cfg.MapOrder while verif.FreeMapOrder(true) is
// in force, where the input order is a decision of the path (every permutation when the slice has at most
// cfg.MaxMapPerm elements, identity and reversal otherwise).  A sort with a strict total order gives the
// same result on every path; a comparator that is not one shows.
func (r *Run) librarySortShuffle(fr *frame, a []value) {
	n := len(a)
	if !r.freeMaps || n < 2 {
		return
	}
	c := fr.caller
	for c != nil && strings.HasSuffix(fnPkgPath(c.fn), "moorara/algo/sort") {
		c = c.caller
	}
	if c == nil {
		return
	}
	name := infoOf(c.fn).name
	hit := false
	for _, w := range r.cfg.MapOrder {
		if strings.Contains(name, w) {
			hit = true
		}
	}
	if !hit || !r.orderBudget() {
		return
	}
	lim := r.cfg.MaxMapPerm
	if lim <= 0 {
		lim = 4
	}
	perm := ""
	if n <= lim {
		for i := 0; i < n-1; i++ {
			j := i
			for j < n-1 && r.freeChoice() {
				j++
			}
			a[i], a[j] = a[j], a[i]
			perm += fmt.Sprint(j)
		}
	} else if r.freeChoice() {
		for x, y := 0, n-1; x < y; x, y = x+1, y-1 {
			a[x], a[y] = a[y], a[x]
		}
		perm = "r"
	}
	if !identityPerm(perm) {
		r.orderSites++
	}
	if !r.replaying() {
		r.reached["sort input order decided"]++
	}
	r.tags = append(r.tags, fmt.Sprintf("sortshuffle@%s=%s", name, perm))
}
