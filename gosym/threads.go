package main

// Two-thread mode (C17): harness threads are coroutines (one goroutine each, exactly one runs at a
// time).  At every preemption point - a call, load, store or map access executed inside a watched
// function - the schedule may switch to another runnable thread; each such choice is a path decision,
// so the exploration enumerates all schedules with at most cfg.MaxSwitches context switches.

import (
	"fmt"
	"go/token"
	"go/types"
	"runtime"
	"strings"

	"golang.org/x/tools/go/ssa"
)

type thread struct {
	id     int
	resume chan struct{}
	done   bool
	fn     value
	// interpreter state that belongs to the thread
	cur   *frame
	depth int
}

type threadState struct {
	threads  []*thread
	cur      *thread
	switches int
	quit     chan struct{}
	panicVal any
	held     map[*value]int // mutex -> thread id
	points   int
	interp   *interpreter
}

func newThreadState() *threadState {
	ts := &threadState{quit: make(chan struct{}), held: map[*value]int{}}
	main := &thread{id: 0, resume: make(chan struct{}, 1)}
	ts.threads = []*thread{main}
	ts.cur = main
	return ts
}

func (ts *threadState) watched(r *Run, fn *ssa.Function) bool {
	name := infoOf(fn).name
	for _, w := range r.cfg.Watch {
		if strings.HasPrefix(name, w) || strings.Contains(name, w) {
			return true
		}
	}
	return false
}

// spawn registers a new thread that will run fn() when first scheduled.
func (ts *threadState) spawn(r *Run, fr *frame, fn value, args []value) {
	t := &thread{id: len(ts.threads), resume: make(chan struct{}, 1), fn: fn}
	ts.threads = append(ts.threads, t)
	ts.interp = fr.i
	go func() {
		select {
		case <-t.resume:
		case <-ts.quit:
			return
		}
		defer func() {
			if p := recover(); p != nil {
				ts.panicVal = p
			}
			t.done = true
			// hand the baton on: another unfinished spawned thread, else the main thread
			next := ts.threads[0]
			for _, o := range ts.threads[1:] {
				if !o.done {
					next = o
					break
				}
			}
			if ts.panicVal != nil {
				next = ts.threads[0]
			}
			ts.activate(next)
		}()
		call(ts.interp, nil, token.NoPos, t.fn, args)
	}()
}

func (ts *threadState) activate(t *thread) {
	ts.cur = t
	ts.interp.cur, ts.interp.depth = t.cur, t.depth
	t.resume <- struct{}{}
}

// switchTo parks the current thread and runs t until the baton comes back.
func (ts *threadState) switchTo(t *thread) {
	me := ts.cur
	me.cur, me.depth = ts.interp.cur, ts.interp.depth
	ts.activate(t)
	select {
	case <-me.resume:
	case <-ts.quit:
		runtime.Goexit()
	}
	if ts.panicVal != nil && me.id == 0 {
		p := ts.panicVal
		ts.panicVal = nil
		panic(p)
	}
}

func (ts *threadState) runnableOther() *thread {
	for _, o := range ts.threads[1:] {
		if !o.done && o != ts.cur {
			return o
		}
	}
	return nil
}

// maybeSwitch is called before every instruction.
func (ts *threadState) maybeSwitch(r *Run, fr *frame, instr ssa.Instruction) {
	if ts.cur.id == 0 || ts.interp == nil {
		return // the main thread only runs while the others are parked or finished
	}
	switch in := instr.(type) {
	case *ssa.Call, *ssa.Store, *ssa.MapUpdate, *ssa.Lookup:
	case *ssa.UnOp:
		if in.Op != token.MUL {
			return
		}
	default:
		return
	}
	if !ts.watched(r, fr.fn) {
		return
	}
	if ts.switches >= r.cfg.MaxSwitches {
		return
	}
	o := ts.runnableOther()
	if o == nil {
		return
	}
	ts.points++
	if r.freeChoice() {
		ts.switches++
		r.tags = append(r.tags, fmt.Sprintf("switch@%s:%s", infoOf(fr.fn).name, fr.pos(instr)))
		ts.switchTo(o)
	}
}

func (ts *threadState) yield(r *Run, fr *frame) {}

// wait runs the spawned threads to completion (called by the main thread).
func (ts *threadState) wait(r *Run, fr *frame) {
	if ts.interp == nil {
		return
	}
	for {
		var next *thread
		for _, o := range ts.threads[1:] {
			if !o.done {
				next = o
				break
			}
		}
		if next == nil {
			break
		}
		ts.switchTo(next)
	}
	if ts.panicVal != nil {
		p := ts.panicVal
		ts.panicVal = nil
		panic(p)
	}
}

// stop releases every parked goroutine at the end of a path.
func (ts *threadState) stop() {
	close(ts.quit)
}

func (ts *threadState) lockEvent(r *Run, fr *frame, m value, lock bool) {
	p, ok := m.(*value)
	if !ok || p == nil {
		return
	}
	if lock {
		for {
			holder, held := ts.held[p]
			if !held || holder == ts.cur.id {
				break
			}
			// blocked: run the holder (a forced switch, not counted against the bound)
			var h *thread
			for _, o := range ts.threads {
				if o.id == holder && !o.done {
					h = o
				}
			}
			if h == nil || ts.interp == nil {
				panic(pathEnd{kind: "ASSUME", msg: "deadlock on a mutex"})
			}
			ts.switchTo(h)
		}
		ts.held[p] = ts.cur.id
	} else {
		delete(ts.held, p)
	}
}

// freeChoice is a path decision that is always feasible both ways (no solver call).
func (r *Run) freeChoice() bool {
	if len(r.trace) < len(r.prefix) {
		d := r.prefix[len(r.trace)]
		r.trace = append(r.trace, d)
		return d == 1
	}
	np := append(append([]int64{}, r.trace...), 1)
	r.forks = append(r.forks, WorkItem{prefix: np, model: r.model})
	r.trace = append(r.trace, 0)
	return false
}

// permuteMapOrder makes the iteration order of a ranged Go map a free decision of the path (inside the
// functions named by cfg.MapOrder, while verif.FreeMapOrder(true) is in force): every permutation of the
// first cfg.MaxMapPerm entries is explored.  The first path keeps the sorted order.
func (r *Run) permuteMapOrder(fr *frame, instr *ssa.Range, li *listIter) {
	if _, isMap := instr.X.Type().Underlying().(*types.Map); !isMap {
		return
	}
	name := infoOf(fr.fn).name
	hit := false
	for _, w := range r.cfg.MapOrder {
		if strings.Contains(name, w) {
			hit = true
		}
	}
	if !hit {
		return
	}
	n := len(li.items)
	lim := r.cfg.MaxMapPerm
	if lim <= 0 {
		lim = 4
	}
	if n > lim {
		if !r.replaying() {
			r.reached["map order: only the first entries permuted (bound max_map_perm)"]++
		}
		n = lim
	}
	perm := ""
	for i := 0; i < n-1; i++ {
		j := i
		for j < n-1 && r.freeChoice() {
			j++
		}
		li.items[i], li.items[j] = li.items[j], li.items[i]
		perm += fmt.Sprint(j)
	}
	if !r.replaying() {
		r.reached["map order decided"]++
	}
	r.tags = append(r.tags, fmt.Sprintf("maporder@%s:%s=%s", name, fr.pos(instr), perm))
}
