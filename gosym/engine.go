package main

// Path exploration: decisions, path condition, solver obligations, violations.

import (
	"fmt"
	"go/types"
	"runtime"
	"sort"
	"strings"

	"golang.org/x/tools/go/ssa"
)

type pathEnd struct {
	kind string // "ASSUME" (infeasible/assumed away), "UNWIND", "DONE", "VIOLATION-STOP", "EXIT"
	msg  string
}

type unsupportedPanic struct{ msg string }

func unsupported(msg string) unsupportedPanic { return unsupportedPanic{msg} }

type InputVar struct {
	Name string `json:"name"`
	Kind string `json:"kind"` // "int","byte","bool","len","choice","enum"
	W    int    `json:"w"`
	term *Term
	// concrete value when the input was a concretised fork (len/choice)
	conc  bool
	cval  uint64
	Value uint64 `json:"value"`
}

type Violation struct {
	Kind     string     `json:"kind"` // assert | panic | bounds | nilderef | divzero | typeassert | unreachable
	Msg      string     `json:"msg"`
	Pos      string     `json:"pos"`
	Inputs   []InputVar `json:"inputs"`
	Trace    []int64    `json:"trace"`
	Harness  string     `json:"harness"`
	Tags     []string   `json:"tags,omitempty"`
	Verified string     `json:"solver"`
}

type WorkItem struct {
	prefix []int64
	model  map[string]uint64
}

type Run struct {
	cfg    *Config
	pool   *TermPool
	solver *Solver
	extra  []*Solver // cross-check solvers for assertion queries

	prefix []int64
	trace  []int64
	pc     []*Term
	model  map[string]uint64 // a model of pc, or nil if unknown
	inputs []*InputVar
	nvar   int

	steps    int
	forks    []WorkItem
	viols    []Violation
	notes    []string // inconclusive reasons
	reached  map[string]int
	funcs    map[string]bool
	tags     []string
	asserts  int
	assumes  int
	obligs   int
	threads  *threadState
	pools    map[*value][]value // sync.Pool model: objects put back, per pool
	orderSites int              // traversals of this path that were given a non-sorted order
	freeMaps bool               // verif.FreeMapOrder(true): map iteration order is a free decision in cfg.MapOrder functions
	exitCode *int
	why      string
	qkinds   map[string]int
	fnset     map[*ssa.Function]bool
	methCache map[methKey]*ssa.Function
	intrCache map[*ssa.Function]externalFn
	intrKnown map[*ssa.Function]bool
	ranges    map[string]rng
	pcset    map[int]bool
	Decided  int
	summ     map[*ssa.Function]*FuncDef
	concFns  map[string]bool
}

func (r *Run) enter(fn *ssa.Function) {
	r.fnset[fn] = true
}

func (r *Run) step(fr *frame, instr ssa.Instruction) {
	r.steps++
	if r.steps&0xfffff == 0 {
		var ms runtime.MemStats
		runtime.ReadMemStats(&ms)
		if ms.HeapAlloc > uint64(r.cfg.MemLimitMB)<<20 {
			panic(pathEnd{kind: "UNWIND", msg: fmt.Sprintf("memory bound %d MiB exceeded in %s", r.cfg.MemLimitMB, fr.fn)})
		}
	}
	if r.steps > r.cfg.MaxSteps {
		panic(pathEnd{kind: "UNWIND", msg: fmt.Sprintf("step budget %d exhausted in %s", r.cfg.MaxSteps, fr.fn)})
	}
	if r.threads != nil {
		r.threads.maybeSwitch(r, fr, instr)
	}
}

func (r *Run) addPC(c *Term) {
	if c.IsTrue() {
		return
	}
	r.pc = append(r.pc, c)
	r.learn(c)
	r.remember(c)
	if r.model != nil {
		if r.pool.Eval(c, r.model, map[int]uint64{}) == 0 {
			r.model = nil
		}
	}
}

// remember records the conjuncts of c so that a later branch on the same condition is free.
func (r *Run) remember(c *Term) {
	if r.pcset == nil {
		r.pcset = map[int]bool{}
	}
	r.pcset[c.id] = true
	if c.op == "and" {
		r.remember(c.args[0])
		r.remember(c.args[1])
	}
}

func (r *Run) known(c *Term) (bool, bool) {
	if r.pcset[c.id] {
		return true, true
	}
	if r.pcset[r.pool.Not(c).id] {
		return false, true
	}
	return r.decided(c)
}

func (r *Run) inputTerms() []*Term {
	var vs []*Term
	for _, in := range r.inputs {
		if in.term != nil {
			vs = append(vs, in.term)
		}
	}
	return vs
}

// sat checks pc ∧ extra and, when satisfiable, returns a model over all inputs.
func (r *Run) sat(extra *Term) (SatResult, map[string]uint64) {
	as := append(append([]*Term{}, r.pc...), extra)
	r.qk(r.why)
	return r.solver.Check(as, r.inputTerms())
}

func (r *Run) qk(k string) {
	if r.qkinds == nil {
		r.qkinds = map[string]int{}
	}
	r.qkinds[k]++
}

// branch decides which way a symbolic condition goes on this path, queueing the other side.
func (r *Run) branch(c *Term, pos string) bool {
	if len(r.trace) < len(r.prefix) {
		d := r.prefix[len(r.trace)]
		r.trace = append(r.trace, d)
		if d == 1 {
			r.addPC(c)
		} else {
			r.addPC(r.pool.Not(c))
		}
		return d == 1
	}
	r.why = "branch " + pos
	if v, ok := r.known(c); ok {
		// implied by the variable ranges or already on the path condition: no fork, no solver call, but recorded for replay
		r.Decided++
		if v {
			r.trace = append(r.trace, 1)
		} else {
			r.trace = append(r.trace, 0)
		}
		return v
	}
	var tOK, fOK bool
	var tModel, fModel map[string]uint64
	if r.model != nil {
		if r.pool.Eval(c, r.model, map[int]uint64{}) != 0 {
			tOK, tModel = true, r.model
		} else {
			fOK, fModel = true, r.model
		}
	}
	if !tOK {
		res, m := r.sat(c)
		tOK, tModel = res != Unsat, m
		if res == Unknown {
			r.note("branch feasibility unknown (kept) at " + pos)
		}
	}
	if !fOK {
		if !tOK {
			fOK = true // pc is satisfiable, so the other side must be
		} else {
			res, m := r.sat(r.pool.Not(c))
			fOK, fModel = res != Unsat, m
			if res == Unknown {
				r.note("branch feasibility unknown (kept) at " + pos)
			}
		}
	}
	take := tOK
	if tOK && fOK {
		// prefer the side the current model is on, queue the other one
		if r.model != nil && fModel != nil && sameModel(r.model, fModel) {
			take = false
		}
		other := int64(1)
		om := tModel
		if take {
			other = 0
			om = fModel
		}
		np := append(append([]int64{}, r.trace...), other)
		r.forks = append(r.forks, WorkItem{prefix: np, model: om})
	}
	if take {
		r.trace = append(r.trace, 1)
		r.pc = append(r.pc, c)
		r.learn(c)
		r.remember(c)
		r.model = tModel
	} else {
		r.trace = append(r.trace, 0)
		r.pc = append(r.pc, r.pool.Not(c))
		r.remember(r.pool.Not(c))
		r.model = fModel
	}
	return take
}

func sameModel(a, b map[string]uint64) bool {
	if len(a) != len(b) {
		return false
	}
	for k, v := range a {
		if b[k] != v {
			return false
		}
	}
	return true
}

func (r *Run) note(s string) {
	for _, n := range r.notes {
		if n == s {
			return
		}
	}
	r.notes = append(r.notes, s)
}

// concretize forks the path over every feasible value of t (at most limit values).
func (r *Run) concretize(t *Term, what string, limit int) uint64 {
	if t.IsConst() {
		return t.val
	}
	if len(r.trace) < len(r.prefix) {
		d := uint64(r.prefix[len(r.trace)])
		r.trace = append(r.trace, int64(d))
		r.addPC(r.pool.Cmp("=", t, r.pool.Const(t.w, d)))
		return d
	}
	var vals []uint64
	var models []map[string]uint64
	excl := r.pool.Bool(true)
	probe := r.pool.Var(fmt.Sprintf("cz%d", t.id), t.w)
	if r.model != nil {
		v := r.pool.Eval(t, r.model, map[int]uint64{})
		vals = append(vals, v)
		models = append(models, r.model)
		excl = r.pool.Not(r.pool.Cmp("=", t, r.pool.Const(t.w, v)))
	}
	for {
		r.qk("concretize " + what)
		as := append(append([]*Term{}, r.pc...), excl, r.pool.Cmp("=", probe, t))
		res, m := r.solver.Check(as, append(r.inputTerms(), probe))
		if res == Unsat {
			break
		}
		if res == Unknown {
			panic(unsupported("concretize " + what + ": solver unknown"))
		}
		v := m[probe.name]
		delete(m, probe.name)
		vals = append(vals, v)
		models = append(models, m)
		excl = r.pool.And(excl, r.pool.Not(r.pool.Cmp("=", t, r.pool.Const(t.w, v))))
		if len(vals) > limit {
			panic(unsupported(fmt.Sprintf("concretize %s: more than %d values", what, limit)))
		}
	}
	if len(vals) == 0 {
		panic(pathEnd{kind: "ASSUME", msg: "infeasible at concretize"})
	}
	// deterministic order
	idx := make([]int, len(vals))
	for i := range idx {
		idx[i] = i
	}
	sort.Slice(idx, func(a, b int) bool { return vals[idx[a]] < vals[idx[b]] })
	for _, i := range idx[1:] {
		np := append(append([]int64{}, r.trace...), int64(vals[i]))
		r.forks = append(r.forks, WorkItem{prefix: np, model: models[i]})
	}
	v := vals[idx[0]]
	r.trace = append(r.trace, int64(v))
	eqc := r.pool.Cmp("=", t, r.pool.Const(t.w, v))
	r.pc = append(r.pc, eqc)
	r.learn(eqc)
	r.remember(eqc)
	r.model = models[idx[0]]
	return v
}

func (r *Run) concretizeOpt(fr *frame, instr ssa.Instruction, v value) value {
	if s, ok := v.(symInt); ok {
		u := r.concretize(s.t, "integer at "+fr.pos(instr), r.cfg.ConcLimit)
		return nativeOf(s.k, u)
	}
	return v
}

func (r *Run) concretizeKey(fr *frame, instr ssa.Instruction, v value) value {
	switch k := v.(type) {
	case symInt:
		return r.concretizeOpt(fr, instr, v)
	case *enumStr:
		u := r.concretize(k.idx, "enum string at "+fr.pos(instr), 64)
		return k.choices[u]
	case *symStr:
		panic(unsupported("map key with symbolic bytes at " + fr.pos(instr)))
	case symBool:
		if r.branch(k.t, fr.pos(instr)) {
			return true
		}
		return false
	}
	return v
}

// violation records a property violation on this path with a concrete model.
func (r *Run) violation(kind, msg, pos string, model map[string]uint64) {
	v := Violation{Kind: kind, Msg: msg, Pos: pos, Harness: r.cfg.Entry, Trace: append([]int64{}, r.trace...), Tags: append([]string{}, r.tags...)}
	for _, in := range r.inputs {
		c := *in
		c.term = nil
		if in.conc {
			c.Value = in.cval
		} else if model != nil {
			c.Value = model[in.Name]
		}
		v.Inputs = append(v.Inputs, c)
	}
	r.viols = append(r.viols, v)
}

// require checks that cond holds on every input following this path; a counter-model is a violation.
// Afterwards cond is assumed.  Returns false if a violation was recorded.
func (r *Run) replaying() bool { return len(r.trace) < len(r.prefix) }

func (r *Run) require(cond *Term, kind, msg, pos string) bool {
	if cond.IsTrue() {
		return true
	}
	if r.replaying() {
		// already discharged by the run that created this prefix (same instructions, same pc)
		if cond.IsFalse() {
			panic(pathEnd{kind: "VIOLATION-STOP", msg: msg})
		}
		r.addPC(cond)
		return true
	}
	r.obligs++
	ok := true
	neg := r.pool.Not(cond)
	var bad map[string]uint64
	if r.model != nil && r.pool.Eval(cond, r.model, map[int]uint64{}) == 0 {
		bad = r.model
	} else if !cond.IsFalse() || r.model == nil {
		res, m := r.sat(neg)
		switch res {
		case Sat:
			bad = m
		case Unknown:
			r.note(fmt.Sprintf("obligation unknown: %s %s at %s (%s)", kind, msg, pos, r.solver.LastError))
		case Unsat:
			for _, x := range r.extra {
				as := append(append([]*Term{}, r.pc...), neg)
				if res2, _ := x.Check(as, nil); res2 == Sat {
					r.note(fmt.Sprintf("solver disagreement (%s says %s) on %s at %s", x.name, res2, msg, pos))
				}
			}
		}
	} else {
		bad = r.model
	}
	if bad != nil {
		ok = false
		r.violation(kind, msg, pos, bad)
	}
	if cond.IsFalse() {
		panic(pathEnd{kind: "VIOLATION-STOP", msg: msg})
	}
	r.addPC(cond)
	if r.model == nil && !ok {
		// make sure the path is still feasible once cond is assumed
		res, m := r.sat(r.pool.Bool(true))
		if res == Unsat {
			panic(pathEnd{kind: "VIOLATION-STOP", msg: msg})
		}
		r.model = m
	}
	return ok
}

func (r *Run) assume(cond *Term) {
	r.assumes++
	if cond.IsTrue() {
		return
	}
	if cond.IsFalse() {
		panic(pathEnd{kind: "ASSUME", msg: "assumption is false"})
	}
	r.addPC(cond)
	if r.replaying() {
		return
	}
	r.why = "assume"
	if r.model == nil {
		res, m := r.sat(r.pool.Bool(true))
		if res == Unsat {
			panic(pathEnd{kind: "ASSUME", msg: "assumption infeasible"})
		}
		if res == Sat {
			r.model = m
		}
	}
}

// ensureModel returns a model of the current path condition (for concrete failures).
func (r *Run) ensureModel() map[string]uint64 {
	if r.model != nil {
		return r.model
	}
	res, m := r.sat(r.pool.Bool(true))
	if res == Sat {
		r.model = m
		return m
	}
	return nil
}

func (r *Run) newInput(kind, label string, w int) *InputVar {
	r.nvar++
	name := fmt.Sprintf("i%d_%s", r.nvar, sanitize(label))
	in := &InputVar{Name: name, Kind: kind, W: w}
	in.term = r.pool.Var(name, w)
	r.inputs = append(r.inputs, in)
	if r.model != nil {
		if _, ok := r.model[name]; !ok {
			r.model[name] = 0 // unconstrained: extend the cached model (copy-on-write not needed: fresh key)
		}
	}
	return in
}

func sanitize(s string) string {
	var sb strings.Builder
	for _, c := range s {
		if c >= 'a' && c <= 'z' || c >= 'A' && c <= 'Z' || c >= '0' && c <= '9' || c == '_' {
			sb.WriteRune(c)
		}
	}
	return sb.String()
}

// ---- memory access with symbolic addresses ---------------------------------

func (r *Run) symIndexAddr(fr *frame, instr ssa.Instruction, elems []value, si symInt) value {
	p := r.pool
	n := len(elems)
	idx := si.t
	inb := p.Cmp("bvult", p.ZExt(idx, 64), p.Const(64, uint64(n)))
	if kindSigned(si.k) {
		inb = p.Cmp("bvult", p.SExt(idx, 64), p.Const(64, uint64(n)))
	}
	r.require(inb, "bounds", fmt.Sprintf("index out of range (length %d)", n), fr.pos(instr))
	if n == 0 {
		panic(pathEnd{kind: "VIOLATION-STOP", msg: "index into empty"})
	}
	sp := &symPtr{idx: p.ZExt(idx, 64)}
	if kindSigned(si.k) {
		sp.idx = p.SExt(idx, 64)
	}
	for i := range elems {
		sp.cands = append(sp.cands, &elems[i])
	}
	return sp
}

func (r *Run) symIndex(fr *frame, instr ssa.Instruction, x value, si symInt) value {
	var elems []value
	switch x := x.(type) {
	case array:
		elems = x
	case string, *symStr:
		elems = strBytes(x)
	default:
		panic(fmt.Sprintf("symIndex on %T", x))
	}
	sp := r.symIndexAddr(fr, instr, elems, si).(*symPtr)
	return r.loadSym(sp)
}

// loadSym reads through a symbolic pointer: an ite chain over runs of equal candidates.
func (r *Run) loadSym(sp *symPtr) value {
	p := r.pool
	n := len(sp.cands)
	res := *sp.cands[n-1]
	// walk backwards building ite(idx <= i, cand[i], rest) and merging equal neighbours
	for i := n - 2; i >= 0; i-- {
		cur := *sp.cands[i]
		if equalsShallow(cur, *sp.cands[i+1]) && !isAggregate(cur) {
			continue
		}
		c := p.Cmp("bvule", sp.idx, p.Const(64, uint64(i)))
		res = iteValue(p, c, loadCopy(cur), res)
	}
	return loadCopy(res)
}

func isAggregate(v value) bool {
	switch v.(type) {
	case structure, array:
		return true
	}
	return false
}

func loadCopy(v value) value {
	switch v := v.(type) {
	case structure:
		a := make(structure, len(v))
		for i := range v {
			a[i] = loadCopy(v[i])
		}
		return a
	case array:
		a := make(array, len(v))
		for i := range v {
			a[i] = loadCopy(v[i])
		}
		return a
	}
	return v
}

func (r *Run) loadAddr(fr *frame, instr ssa.Instruction, T types.Type, addr value) value {
	switch a := addr.(type) {
	case *value:
		if a == nil {
			panic(targetPanic{"invalid memory address or nil pointer dereference", fr.pos(instr)})
		}
		return load(T, a)
	case *symPtr:
		return r.loadSym(a)
	}
	panic(fmt.Sprintf("load through %T", addr))
}

func (r *Run) storeAddr(fr *frame, instr ssa.Instruction, T types.Type, addr value, v value) {
	switch a := addr.(type) {
	case *value:
		if a == nil {
			panic(targetPanic{"invalid memory address or nil pointer dereference", fr.pos(instr)})
		}
		store(T, a, v)
		return
	case *symPtr:
		p := r.pool
		for i, c := range a.cands {
			cond := p.Cmp("=", a.idx, p.Const(64, uint64(i)))
			store(T, c, iteValue(p, cond, v, load(T, c)))
		}
		return
	}
	panic(fmt.Sprintf("store through %T", addr))
}

func (r *Run) checkDivisor(fr *frame, instr ssa.Instruction, y value) {
	switch y := y.(type) {
	case symInt:
		r.require(r.pool.Not(r.pool.Cmp("=", y.t, r.pool.Const(y.t.w, 0))), "divzero", "integer divide by zero", fr.pos(instr))
	case float32, float64, complex64, complex128:
	default:
		if _, ok := valueKind(y); ok && asInt64(y) == 0 {
			panic(targetPanic{"integer divide by zero", fr.pos(instr)})
		}
	}
}

func (r *Run) lookup(fr *frame, instr *ssa.Lookup, x, idx value) value {
	if _, ok := x.(string); ok || isSymStr(x) {
		// string indexing via Lookup
		if si, ok := idx.(symInt); ok {
			return r.symIndex(fr, instr, x, si)
		}
		b := strBytes(x)
		i := asInt64(idx)
		if i < 0 || i >= int64(len(b)) {
			panic(targetPanic{fmt.Sprintf("index out of range [%d] with length %d", i, len(b)), fr.pos(instr)})
		}
		return b[i]
	}
	if ss, ok := idx.(*symStr); ok {
		if m, ok := x.(map[value]value); ok {
			// a map from strings looked up with symbolic text: one branch per key of the same length
			var keys []string
			for k := range m {
				if ks, ok := k.(string); ok && len(ks) == len(ss.b) {
					keys = append(keys, ks)
				}
			}
			sort.Strings(keys)
			for _, k := range keys {
				c := strEq(r.pool, ss, k)
				if c.IsTrue() || (!c.IsFalse() && r.branch(c, fr.pos(instr))) {
					return lookup(instr, x, k)
				}
			}
			missing := "\x00"
			for {
				if _, present := m[missing]; !present {
					break
				}
				missing += "\x00"
			}
			return lookup(instr, x, missing)
		}
	}
	idx = r.concretizeKey(fr, instr, idx)
	return lookup(instr, x, idx)
}

func isSymStr(v value) bool {
	_, ok := v.(*symStr)
	return ok
}

func (r *Run) spawn(fr *frame, fn value, args []value) {
	if r.threads == nil {
		// a go statement of the code under test: the goroutine is a coroutine that runs when the spawning
		// thread waits for it (sync.WaitGroup.Wait); preemption only inside watched functions
		r.threads = newThreadState()
	}
	r.threads.spawn(r, fr, fn, args)
}

// lazyInit records that a package outside the configured set was initialised on first use.
func (r *Run) lazyInit(path string) {
	if !r.replaying() {
		r.reached["package initialised on first use: "+path]++
	}
}
