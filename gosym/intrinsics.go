package main

// Intrinsics: the verif.* harness API, and models of standard-library callees that are
// not interpreted from their own SSA.  Every entry here is part of the claim of a check
// (the result file lists the ones that were actually called).

import (
	"go/token"
	"fmt"
	"go/types"
	"strconv"
	"strings"

	"golang.org/x/tools/go/ssa"
)

type externalFn func(fr *frame, args []value) value

func (r *Run) intrinsic(name string, fn *ssa.Function) externalFn {
	if r.intrKnown[fn] {
		return r.intrCache[fn]
	}
	f := r.intrinsic1(name, fn)
	r.intrKnown[fn] = true
	r.intrCache[fn] = f
	return f
}

func (r *Run) intrinsic1(name string, fn *ssa.Function) externalFn {
	if to, ok := r.cfg.Redirect[name]; ok {
		target := r.cfg.lookupFunc(to)
		if target == nil {
			panic(unsupported("redirect target not found: " + to))
		}
		r.cfg.usedStub(name + " => " + to)
		return func(fr *frame, args []value) value {
			return callSSA(fr.i, fr.caller, 0, target, args, nil)
		}
	}
	if (name == "github.com/moorara/algo/sort.Shuffle" || strings.HasPrefix(name, "github.com/moorara/algo/sort.Shuffle[")) && len(r.cfg.MapOrder) > 0 {
		r.cfg.usedStub("github.com/moorara/algo/sort.Shuffle (identity; a free permutation where the configuration says so)")
		return func(fr *frame, args []value) value {
			if sl, ok := args[0].([]value); ok {
				r.librarySortShuffle(fr, sl)
			}
			return nil
		}
	}
	if f, ok := stdFns[name]; ok && name == "(*math/rand.Rand).Shuffle" && len(r.cfg.MapOrder) > 0 {
		r.cfg.usedStub(name + " (identity; a free permutation where the configuration says so)")
		return func(fr *frame, args []value) value { return f(r, fr, args) }
	}
	if r.cfg.opaque[name] || (fn.Pkg != nil && r.cfg.opaquePkg[fn.Pkg.Pkg.Path()] && fn.Name() != "init") {
		r.cfg.usedStub(name + " (opaque: zero result)")
		return func(fr *frame, args []value) value {
			res := fn.Signature.Results()
			switch res.Len() {
			case 0:
				return nil
			case 1:
				return zero(res.At(0).Type())
			}
			return zero(res)
		}
	}
	if fn.Pkg != nil && (strings.HasSuffix(fn.Pkg.Pkg.Path(), "/verif") || fn.Pkg.Pkg.Path() == "verif") && fn.Signature.Recv() == nil {
		short := name[strings.LastIndex(name, ".")+1:]
		if f, ok := verifFns[short]; ok {
			return func(fr *frame, args []value) value { return f(r, fr, args) }
		}
		return nil // plain Go helper in the verif package: interpret it
	}
	if f, ok := stdFns[name]; ok {
		r.cfg.usedStub(name)
		return func(fr *frame, args []value) value { return f(r, fr, args) }
	}
	return nil
}

type runFn func(r *Run, fr *frame, args []value) value

var verifFns map[string]runFn
var stdFns map[string]runFn

func strArg(v value) string {
	switch v := v.(type) {
	case string:
		return v
	case *symStr:
		return "<symbolic>"
	case *enumStr:
		return "<enum>"
	}
	return fmt.Sprint(v)
}

func (r *Run) mkInt(kind string, label string, k types.BasicKind) value {
	in := r.newInput(kind, label, kindWidth(k))
	return symInt{k, in.term}
}

func init() {
	verifFns = map[string]runFn{
		"Byte": func(r *Run, fr *frame, a []value) value { return r.mkInt("byte", strArg(a[0]), types.Uint8) },
		"Rune": func(r *Run, fr *frame, a []value) value { return r.mkInt("rune", strArg(a[0]), types.Int32) },
		"Int":  func(r *Run, fr *frame, a []value) value { return r.mkInt("int", strArg(a[0]), types.Int) },
		"Bool": func(r *Run, fr *frame, a []value) value {
			in := r.newInput("bool", strArg(a[0]), 0)
			return symBool{in.term}
		},
		// IntRange(label, lo, hi): symbolic int with lo <= x <= hi assumed
		"IntRange": func(r *Run, fr *frame, a []value) value {
			v := r.mkInt("int", strArg(a[0]), types.Int).(symInt)
			p := r.pool
			lo, hi := p.Const(64, uint64(asInt64(a[1]))), p.Const(64, uint64(asInt64(a[2])))
			r.assume(p.And(p.Cmp("bvsle", lo, v.t), p.Cmp("bvsle", v.t, hi)))
			return v
		},
		// Len(label, lo, hi): a length in [lo,hi]; the path forks on its value
		"Len": func(r *Run, fr *frame, a []value) value {
			in := r.newInput("len", strArg(a[0]), 64)
			p := r.pool
			lo, hi := p.Const(64, uint64(asInt64(a[1]))), p.Const(64, uint64(asInt64(a[2])))
			r.assume(p.And(p.Cmp("bvsle", lo, in.term), p.Cmp("bvsle", in.term, hi)))
			u := r.concretize(in.term, "Len "+strArg(a[0]), 4096)
			in.conc, in.cval = true, u
			return int(u)
		},
		// Pick(label, n): a value in [0,n); the path forks on its value
		"Pick": func(r *Run, fr *frame, a []value) value {
			in := r.newInput("len", strArg(a[0]), 64)
			p := r.pool
			r.assume(p.Cmp("bvult", in.term, p.Const(64, uint64(asInt64(a[1])))))
			u := r.concretize(in.term, "Pick "+strArg(a[0]), 4096)
			in.conc, in.cval = true, u
			return int(u)
		},
		// Choice(label, n): symbolic int in [0,n), not forked
		"Choice": func(r *Run, fr *frame, a []value) value {
			v := r.mkInt("int", strArg(a[0]), types.Int).(symInt)
			p := r.pool
			r.assume(p.Cmp("bvult", v.t, p.Const(64, uint64(asInt64(a[1])))))
			return v
		},
		// Bytes(label, n): n fresh symbolic bytes
		"Bytes": func(r *Run, fr *frame, a []value) value {
			n := int(asInt64(a[1]))
			out := make([]value, n)
			for i := range out {
				out[i] = r.mkInt("byte", fmt.Sprintf("%s%d", strArg(a[0]), i), types.Uint8)
			}
			return out
		},
		// Enum(label, choices...): a string that is one of the given constants
		"Enum": func(r *Run, fr *frame, a []value) value {
			cs := a[1].([]value)
			e := &enumStr{}
			for _, c := range cs {
				e.choices = append(e.choices, c.(string))
			}
			in := r.newInput("enum", strArg(a[0]), 8)
			r.assume(r.pool.Cmp("bvult", in.term, r.pool.Const(8, uint64(len(cs)))))
			e.idx = in.term
			return e
		},
		// EnumMap(e, to...): the string to[i] where e is its i-th choice (same selector)
		"EnumMap": func(r *Run, fr *frame, a []value) value {
			from, to := a[1].([]value), a[2].([]value)
			lookup := func(c string) string {
				for j := range from {
					if from[j].(string) == c {
						return to[j].(string)
					}
				}
				return c
			}
			switch e := a[0].(type) {
			case *enumStr:
				out := &enumStr{idx: e.idx}
				for _, c := range e.choices {
					out.choices = append(out.choices, lookup(c))
				}
				return out
			case string:
				return lookup(e)
			}
			panic(unsupported("EnumMap"))
		},
		"Assume": func(r *Run, fr *frame, a []value) value {
			r.assume(boolTerm(r.pool, a[0]))
			return nil
		},
		"Assert": func(r *Run, fr *frame, a []value) value {
			if !r.replaying() {
				r.asserts++
			}
			pos := ""
			if fr.caller != nil {
				pos = fr.caller.fn.String()
			}
			r.require(boolTerm(r.pool, a[0]), "assert", strArg(a[1]), pos)
			return nil
		},
		"Fail": func(r *Run, fr *frame, a []value) value {
			r.asserts++
			pos := ""
			if fr.caller != nil {
				pos = fr.caller.fn.String()
			}
			r.require(r.pool.Bool(false), "assert", strArg(a[0]), pos)
			return nil
		},
		"Reach": func(r *Run, fr *frame, a []value) value {
			if r.replaying() {
				return nil
			}
			r.reached[strArg(a[0])]++
			return nil
		},
		"Tag": func(r *Run, fr *frame, a []value) value {
			r.tags = append(r.tags, strArg(a[0]))
			return nil
		},
		"And": func(r *Run, fr *frame, a []value) value {
			return fromBoolTerm(r.pool.And(boolTerm(r.pool, a[0]), boolTerm(r.pool, a[1])))
		},
		"Or": func(r *Run, fr *frame, a []value) value {
			return fromBoolTerm(r.pool.Or(boolTerm(r.pool, a[0]), boolTerm(r.pool, a[1])))
		},
		"Not": func(r *Run, fr *frame, a []value) value { return fromBoolTerm(r.pool.Not(boolTerm(r.pool, a[0]))) },
		"Implies": func(r *Run, fr *frame, a []value) value {
			return fromBoolTerm(r.pool.Or(r.pool.Not(boolTerm(r.pool, a[0])), boolTerm(r.pool, a[1])))
		},
		"Iff": func(r *Run, fr *frame, a []value) value {
			return fromBoolTerm(r.pool.Iff(boolTerm(r.pool, a[0]), boolTerm(r.pool, a[1])))
		},
		"IteInt": func(r *Run, fr *frame, a []value) value {
			return iteValue(r.pool, boolTerm(r.pool, a[0]), a[1], a[2])
		},
		"IteBool": func(r *Run, fr *frame, a []value) value {
			return iteValue(r.pool, boolTerm(r.pool, a[0]), a[1], a[2])
		},
		"StrEq": func(r *Run, fr *frame, a []value) value {
			if !isSym(a[0]) && !isSym(a[1]) {
				return a[0].(string) == a[1].(string)
			}
			return fromBoolTerm(strEq(r.pool, a[0], a[1]))
		},
		// Concretize(x): fork the path on the value of x
		"Concretize": func(r *Run, fr *frame, a []value) value {
			if s, ok := a[0].(symInt); ok {
				return nativeOf(s.k, r.concretize(s.t, "Concretize", r.cfg.ConcLimit))
			}
			return a[0]
		},
		"ConcretizeByte": func(r *Run, fr *frame, a []value) value {
			if s, ok := a[0].(symInt); ok {
				return nativeOf(s.k, r.concretize(s.t, "ConcretizeByte", 256))
			}
			return a[0]
		},
		"ConcretizeString": func(r *Run, fr *frame, a []value) value {
			switch s := a[0].(type) {
			case *enumStr:
				return s.choices[r.concretize(s.idx, "ConcretizeString", 64)]
			case *symStr:
				out := make([]byte, len(s.b))
				for i, b := range s.b {
					if sb, ok := b.(symInt); ok {
						out[i] = byte(r.concretize(sb.t, "ConcretizeString", 256))
					} else {
						out[i] = b.(uint8)
					}
				}
				return string(out)
			}
			return a[0]
		},
		"IsSymbolic": func(r *Run, fr *frame, a []value) value { return deepSymAny(a[0]) },
		"Symbolic":   func(r *Run, fr *frame, a []value) value { return true },
		// String(b): string with the given (symbolic) bytes
		"String": func(r *Run, fr *frame, a []value) value { return mkStr(a[0].([]value)) },
		// Yield(): a preemption point for the two-thread mode
		"Yield": func(r *Run, fr *frame, a []value) value {
			if r.threads != nil {
				r.threads.yield(r, fr)
			}
			return nil
		},
		"FreeShuffle": func(r *Run, fr *frame, a []value) value { return nil },
		"FreeMapOrder": func(r *Run, fr *frame, a []value) value {
			r.freeMaps = a[0].(bool)
			return nil
		},
		"Go": func(r *Run, fr *frame, a []value) value {
			if r.threads == nil {
				r.threads = newThreadState()
			}
			r.threads.spawn(r, fr, a[0], nil)
			return nil
		},
		"Wait": func(r *Run, fr *frame, a []value) value {
			if r.threads != nil {
				r.threads.wait(r, fr)
			}
			return nil
		},
	}

	noop := func(r *Run, fr *frame, a []value) value { return nil }
	stdFns = map[string]runFn{
		"(*sync.Mutex).Lock":      func(r *Run, fr *frame, a []value) value { r.lockEvent(fr, a[0], true); return nil },
		"(*sync.Mutex).Unlock":    func(r *Run, fr *frame, a []value) value { r.lockEvent(fr, a[0], false); return nil },
		"(*sync.RWMutex).Lock":    func(r *Run, fr *frame, a []value) value { r.lockEvent(fr, a[0], true); return nil },
		"(*sync.RWMutex).Unlock":  func(r *Run, fr *frame, a []value) value { r.lockEvent(fr, a[0], false); return nil },
		"(*sync.RWMutex).RLock":   func(r *Run, fr *frame, a []value) value { r.lockEvent(fr, a[0], true); return nil },
		"(*sync.RWMutex).RUnlock": func(r *Run, fr *frame, a []value) value { r.lockEvent(fr, a[0], false); return nil },
		// sync.Pool: Get hands back the object put most recently (the reuse that the pool exists for) and
		// calls New otherwise.
		"(*sync.Pool).Get": func(r *Run, fr *frame, a []value) value {
			p := a[0].(*value)
			if l := r.pools[p]; len(l) > 0 {
				x := l[len(l)-1]
				r.pools[p] = l[:len(l)-1]
				return x
			}
			st := (*p).(structure)
			newFn := st[len(st)-1]
			if newFn == nil {
				return iface{}
			}
			if c, ok := newFn.(*closure); ok && c == nil {
				return iface{}
			}
			if f, ok := newFn.(*ssa.Function); ok && f == nil {
				return iface{}
			}
			return call(fr.i, fr, 0, newFn, nil)
		},
		"(*sync.Pool).Put": func(r *Run, fr *frame, a []value) value {
			p := a[0].(*value)
			if r.pools == nil {
				r.pools = map[*value][]value{}
			}
			r.pools[p] = append(r.pools[p], a[1])
			return nil
		},
		"(*math/rand.Rand).Shuffle": func(r *Run, fr *frame, a []value) value {
			r.libraryShuffle(fr, int(asInt64(a[1])), a[2])
			return nil
		},
		"(*sync.WaitGroup).Add":  noop,
		"(*sync.WaitGroup).Done": noop,
		"(*sync.WaitGroup).Wait": func(r *Run, fr *frame, a []value) value {
			if r.threads != nil {
				r.threads.wait(r, fr)
			}
			return nil
		},
		"(*sync.Once).Do": func(r *Run, fr *frame, a []value) value {
			o := a[0].(*value)
			st := (*o).(structure)
			if d, ok := st[0].(bool); ok && d {
				return nil
			}
			st[0] = true
			call(fr.i, fr, 0, a[1], nil)
			return nil
		},
		"time.Now": func(r *Run, fr *frame, a []value) value {
			// the clock is an environment stub: a fixed instant (only used to seed shuffles in the libraries)
			return zero(fr.fn.Signature.Results().At(0).Type())
		},
		"runtime.SetFinalizer": noop,
		"runtime.KeepAlive":    noop,
		"os.Exit": func(r *Run, fr *frame, a []value) value {
			panic(exitPanic(asInt64(r.concretizeOpt(fr, nil, a[0]))))
		},
		"fmt.Sprintf": func(r *Run, fr *frame, a []value) value {
			return r.sprintf(fr, a[0], a[1].([]value))
		},
		"fmt.Sprint": func(r *Run, fr *frame, a []value) value {
			var parts []value
			for _, x := range a[0].([]value) {
				parts = append(parts, r.formatOne(fr, "%v", x))
			}
			return concatStr(parts)
		},
		"fmt.Errorf": func(r *Run, fr *frame, a []value) value {
			msg := r.sprintf(fr, a[0], a[1].([]value))
			var wrapped value
			if f, ok := a[0].(string); ok && strings.Contains(f, "%w") {
				for _, x := range a[1].([]value) {
					if it, ok := x.(iface); ok && it.t != nil && r.implementsError(it.t) {
						wrapped = it
					}
				}
			}
			return r.mkError(fr, msg, wrapped)
		},
		"fmt.Fprintf": func(r *Run, fr *frame, a []value) value {
			s := r.sprintf(fr, a[1], a[2].([]value))
			return r.writeTo(fr, a[0], s)
		},
		"fmt.Fprint": func(r *Run, fr *frame, a []value) value {
			var parts []value
			for _, x := range a[1].([]value) {
				parts = append(parts, r.formatOne(fr, "%v", x))
			}
			return r.writeTo(fr, a[0], concatStr(parts))
		},
		"fmt.Fprintln": func(r *Run, fr *frame, a []value) value {
			var parts []value
			for i, x := range a[1].([]value) {
				if i > 0 {
					parts = append(parts, " ")
				}
				parts = append(parts, r.formatOne(fr, "%v", x))
			}
			parts = append(parts, "\n")
			return r.writeTo(fr, a[0], concatStr(parts))
		},
		"fmt.Printf":  func(r *Run, fr *frame, a []value) value { return tuple{0, iface{}} },
		"fmt.Println": func(r *Run, fr *frame, a []value) value { return tuple{0, iface{}} },
		"fmt.Print":   func(r *Run, fr *frame, a []value) value { return tuple{0, iface{}} },
		"errors.Is": func(r *Run, fr *frame, a []value) value {
			return r.errorsIs(fr, a[0].(iface), a[1].(iface), 0)
		},
		"(*bytes.Buffer).WriteByte": func(r *Run, fr *frame, a []value) value {
			bufAppend(a[0], []value{a[1]})
			return iface{}
		},
		"(*bytes.Buffer).WriteString": func(r *Run, fr *frame, a []value) value {
			b := strBytesAny(r, a[1])
			bufAppend(a[0], b)
			return tuple{len(b), iface{}}
		},
		"(*bytes.Buffer).Write": func(r *Run, fr *frame, a []value) value {
			b := a[1].([]value)
			bufAppend(a[0], b)
			return tuple{len(b), iface{}}
		},
		"(*bytes.Buffer).WriteRune": func(r *Run, fr *frame, a []value) value {
			if s, ok := a[1].(symInt); ok {
				p := r.pool
				r.require(p.Cmp("bvult", s.t, p.Const(32, 0x80)), "unsupported", "WriteRune of a symbolic non-ASCII rune is outside the engine", fr.fn.String())
				bufAppend(a[0], []value{fromIntTerm(types.Uint8, p.Extract(7, 0, s.t))})
				return tuple{1, iface{}}
			}
			s := string(rune(a[1].(int32)))
			bufAppend(a[0], strBytes(s))
			return tuple{len(s), iface{}}
		},
		"(*bytes.Buffer).String": func(r *Run, fr *frame, a []value) value {
			p := a[0].(*value)
			if p == nil {
				return "<nil>"
			}
			st := (*p).(structure)
			buf, _ := st[0].([]value)
			off := int(asInt64(st[1]))
			return mkStr(buf[off:])
		},
		"(*bytes.Buffer).Len": func(r *Run, fr *frame, a []value) value {
			st := (*a[0].(*value)).(structure)
			buf, _ := st[0].([]value)
			return len(buf) - int(asInt64(st[1]))
		},
		"(*bytes.Buffer).Bytes": func(r *Run, fr *frame, a []value) value {
			st := (*a[0].(*value)).(structure)
			buf, _ := st[0].([]value)
			return buf[int(asInt64(st[1])):]
		},
		"(*bytes.Buffer).Reset": func(r *Run, fr *frame, a []value) value {
			st := (*a[0].(*value)).(structure)
			buf, _ := st[0].([]value)
			st[0] = buf[:0]
			st[1] = int(0)
			return nil
		},
		"strconv.Itoa": func(r *Run, fr *frame, a []value) value {
			if _, ok := a[0].(symInt); ok {
				return "\x00symd\x00"
			}
			return strconv.Itoa(int(asInt64(a[0])))
		},
		"strconv.Quote": func(r *Run, fr *frame, a []value) value {
			if s, ok := a[0].(string); ok {
				return strconv.Quote(s)
			}
			return "\x00symq\x00"
		},
		"strings.Join": func(r *Run, fr *frame, a []value) value {
			var parts []value
			for i, x := range a[0].([]value) {
				if i > 0 {
					parts = append(parts, a[1])
				}
				parts = append(parts, x)
			}
			return concatStr(parts)
		},
		"strings.Split": func(r *Run, fr *frame, a []value) value {
			parts := strings.Split(r.textOf(a[0]), r.textOf(a[1]))
			out := make([]value, len(parts))
			for i, p := range parts {
				out[i] = p
			}
			return out
		},
		"strings.Compare": func(r *Run, fr *frame, a []value) value {
			if x, ok := a[0].(string); ok {
				if y, ok := a[1].(string); ok {
					return strings.Compare(x, y)
				}
			}
			test := func(op token.Token) bool {
				switch c := binop(op, nil, a[0], a[1]).(type) {
				case bool:
					return c
				case symBool:
					return r.branch(c.t, "strings.Compare")
				}
				panic("strings.Compare: bad comparison result")
			}
			if test(token.EQL) {
				return 0
			}
			if test(token.LSS) {
				return -1
			}
			return 1
		},
		"strings.Count": func(r *Run, fr *frame, a []value) value {
			return strings.Count(r.textOf(a[0]), r.textOf(a[1]))
		},
		"strings.Repeat": func(r *Run, fr *frame, a []value) value {
			return strings.Repeat(r.textOf(a[0]), int(asInt64(r.concretizeOpt(fr, nil, a[1]))))
		},
		"strings.Contains": func(r *Run, fr *frame, a []value) value {
			return r.strFind(a[0], a[1], 0)
		},
		"strings.HasPrefix": func(r *Run, fr *frame, a []value) value {
			return r.strFind(a[0], a[1], 1)
		},
		"strings.HasSuffix": func(r *Run, fr *frame, a []value) value {
			return r.strFind(a[0], a[1], 2)
		},
		"unicode/utf8.RuneCountInString": func(r *Run, fr *frame, a []value) value {
			if s, ok := a[0].(string); ok {
				return len([]rune(s))
			}
			return len(r.symRunes(fr, nil, a[0].(*symStr)).([]value))
		},
	}
}

// strFind: mode 0 = Contains, 1 = HasPrefix, 2 = HasSuffix; strings may hold symbolic bytes.
func (r *Run) strFind(sv, subv value, mode int) value {
	if s, ok := sv.(string); ok {
		if sub, ok := subv.(string); ok {
			switch mode {
			case 0:
				return strings.Contains(s, sub)
			case 1:
				return strings.HasPrefix(s, sub)
			}
			return strings.HasSuffix(s, sub)
		}
	}
	p := r.pool
	s, sub := strBytesAny(r, sv), strBytesAny(r, subv)
	if len(sub) > len(s) {
		return false
	}
	at := func(off int) *Term {
		c := p.Bool(true)
		for j := range sub {
			c = p.And(c, p.Cmp("=", intTerm(p, s[off+j]), intTerm(p, sub[j])))
			if c.IsFalse() {
				break
			}
		}
		return c
	}
	switch mode {
	case 1:
		return fromBoolTerm(at(0))
	case 2:
		return fromBoolTerm(at(len(s) - len(sub)))
	}
	res := p.Bool(false)
	for off := 0; off+len(sub) <= len(s); off++ {
		res = p.Or(res, at(off))
	}
	return fromBoolTerm(res)
}

// textOf: like opaqueText, but a finite-choice string is split into its concrete cases (the path forks).
func (r *Run) textOf(v value) string {
	if e, ok := v.(*enumStr); ok {
		return e.choices[r.concretize(e.idx, "text of a finite-choice string", 64)]
	}
	return opaqueText(v)
}

// opaqueText: the concrete text of a string; symbolic parts become a placeholder (message texts built
// from symbolic data are not the subject of any check).
func opaqueText(v value) string {
	switch v := v.(type) {
	case string:
		return v
	case *enumStr:
		return "\x00enum\x00"
	case *symStr:
		bs := make([]byte, len(v.b))
		for i, b := range v.b {
			if c, ok := b.(uint8); ok {
				bs[i] = c
			} else {
				bs[i] = '?'
			}
		}
		return string(bs)
	}
	return fmt.Sprint(v)
}

func deepSymAny(v value) bool {
	if deepSym(v) {
		return true
	}
	if s, ok := v.([]value); ok {
		for _, x := range s {
			if deepSymAny(x) {
				return true
			}
		}
	}
	return false
}

func strBytesAny(r *Run, v value) []value {
	if e, ok := v.(*enumStr); ok {
		return strBytes(e.choices[r.concretize(e.idx, "enum string bytes", 64)])
	}
	return strBytes(v)
}

func bufAppend(pb value, b []value) {
	p := pb.(*value)
	st := (*p).(structure)
	buf, _ := st[0].([]value)
	st[0] = append(buf, b...)
}

func concatStr(parts []value) value {
	// finite-choice parts: keep the result a finite-choice string when everything else is concrete
	var sel *Term
	enums, allConc := 0, true
	for _, p := range parts {
		switch p := p.(type) {
		case *enumStr:
			enums++
			if sel == nil {
				sel = p.idx
			} else if sel != p.idx {
				allConc = false
			}
		case string:
		default:
			allConc = false
		}
	}
	if enums > 0 && allConc {
		var first *enumStr
		for _, p := range parts {
			if e, ok := p.(*enumStr); ok {
				first = e
				break
			}
		}
		out := &enumStr{idx: sel}
		for i := range first.choices {
			s := ""
			for _, p := range parts {
				switch p := p.(type) {
				case *enumStr:
					s += p.choices[i]
				case string:
					s += p
				}
			}
			out.choices = append(out.choices, s)
		}
		return out
	}
	var out []value
	for _, p := range parts {
		if _, ok := p.(*enumStr); ok {
			out = append(out, strBytes("\x00enum\x00")...)
			continue
		}
		out = append(out, strBytes(p)...)
	}
	return mkStr(out)
}

func (r *Run) lockEvent(fr *frame, m value, lock bool) {
	if r.threads != nil {
		r.threads.lockEvent(r, fr, m, lock)
	}
}

func (r *Run) implementsError(t types.Type) bool {
	ms := r.cfg.prog.MethodSets.MethodSet(t)
	sel := ms.Lookup(nil, "Error")
	return sel != nil
}

// writeTo appends s to an io.Writer value that is a *bytes.Buffer; other writers are opaque sinks.
func (r *Run) writeTo(fr *frame, w value, s value) value {
	n := len(strBytes(s))
	if it, ok := w.(iface); ok {
		if it.t != nil && it.t.String() == "*bytes.Buffer" {
			bufAppend(it.v, strBytes(s))
		} else if it.t != nil {
			// call the writer's Write method if it is interpreted code (harness sinks)
			if m := r.findMethod(it.t, "Write"); m != nil && m.Blocks != nil && m.Pkg != nil && !isStdPkg(m.Pkg.Pkg.Path()) {
				call(fr.i, fr, 0, m, []value{it.v, append([]value{}, strBytes(s)...)})
			}
		}
	}
	return tuple{n, iface{}}
}

// findMethod returns the exported method name of type t, or nil.
func (r *Run) findMethod(t types.Type, name string) *ssa.Function {
	r.cfg.mu.Lock()
	defer r.cfg.mu.Unlock()
	sel := r.cfg.prog.MethodSets.MethodSet(t).Lookup(nil, name)
	if sel == nil {
		return nil
	}
	return r.cfg.prog.MethodValue(sel)
}

func isStdPkg(path string) bool {
	first := path
	if i := strings.Index(path, "/"); i >= 0 {
		first = path[:i]
	}
	return !strings.Contains(first, ".")
}

// mkError builds an error value: *fmt.wrapError when wrapping, else *errors.errorString.
func (r *Run) mkError(fr *frame, msg value, wrapped value) value {
	prog := r.cfg.prog
	if wrapped != nil {
		if pkg := prog.ImportedPackage("fmt"); pkg != nil {
			if t := pkg.Type("wrapError"); t != nil {
				var cell value = structure{msg, wrapped}
				return iface{t: types.NewPointer(t.Type()), v: &cell}
			}
		}
	}
	if pkg := prog.ImportedPackage("errors"); pkg != nil {
		if t := pkg.Type("errorString"); t != nil {
			var cell value = structure{msg}
			return iface{t: types.NewPointer(t.Type()), v: &cell}
		}
	}
	panic(unsupported("cannot build error value (errors package not loaded)"))
}

func (r *Run) errorsIs(fr *frame, err, target iface, depth int) value {
	if err.t == nil || target.t == nil {
		return err.t == nil && target.t == nil
	}
	if depth > 50 {
		return false
	}
	if types.Identical(err.t, target.t) && types.Comparable(err.t) {
		if deepSym(err.v) || deepSym(target.v) {
			// symbolic comparison only where needed
			e := symEquals(r.pool, err.v, target.v)
			if e.IsTrue() {
				return true
			}
			if !e.IsFalse() {
				if r.branch(e, "errors.Is") {
					return true
				}
			}
		} else if equals(err.t, err.v, target.v) {
			return true
		}
	}
	if m := r.findMethod(err.t, "Is"); m != nil {
		if sig := m.Signature; sig.Params().Len() == 1 && sig.Results().Len() == 1 {
			if b, ok := call(fr.i, fr, 0, m, []value{err.v, target}).(bool); ok && b {
				return true
			}
		}
	}
	if m := r.findMethod(err.t, "Unwrap"); m != nil {
		res := call(fr.i, fr, 0, m, []value{err.v})
		switch res := res.(type) {
		case iface:
			return r.errorsIs(fr, res, target, depth+1)
		case []value:
			for _, e := range res {
				if b, ok := r.errorsIs(fr, e.(iface), target, depth+1).(bool); ok && b {
					return true
				}
			}
		}
	}
	return false
}

// ---- a small fmt ------------------------------------------------------------

func (r *Run) sprintf(fr *frame, format value, args []value) value {
	f, ok := format.(string)
	if !ok {
		panic(unsupported("fmt with a symbolic format string"))
	}
	var parts []value
	ai := 0
	for i := 0; i < len(f); {
		if f[i] != '%' {
			j := i
			for j < len(f) && f[j] != '%' {
				j++
			}
			parts = append(parts, f[i:j])
			i = j
			continue
		}
		j := i + 1
		for j < len(f) && strings.IndexByte("+-# 0123456789.[]*", f[j]) >= 0 {
			j++
		}
		if j >= len(f) {
			parts = append(parts, "%!(NOVERB)")
			break
		}
		verb := f[i : j+1]
		i = j + 1
		if verb[len(verb)-1] == '%' {
			parts = append(parts, "%")
			continue
		}
		if ai >= len(args) {
			parts = append(parts, "%!"+string(verb[len(verb)-1])+"(MISSING)")
			continue
		}
		parts = append(parts, r.formatOne(fr, verb, args[ai]))
		ai++
	}
	return concatStr(parts)
}

// formatOne renders one operand under one verb.
func (r *Run) formatOne(fr *frame, verb string, arg value) value {
	v := verb[len(verb)-1]
	if v == 'w' {
		verb = verb[:len(verb)-1] + "v"
		v = 'v'
	}
	// unwrap interfaces, honouring error and Stringer for the string-ish verbs
	if it, ok := arg.(iface); ok {
		if it.t == nil {
			if v == 'd' {
				return "%!d(<nil>)"
			}
			return "<nil>"
		}
		if v == 's' || v == 'v' || v == 'q' {
			if m := r.findMethod(it.t, "Error"); m != nil && m.Signature.Params().Len() == 0 {
				if p, ok := it.v.(*value); ok && p == nil {
					return "<nil>"
				}
				return r.formatOne(fr, verb, call(fr.i, fr, 0, m, []value{it.v}))
			}
			if m := r.findMethod(it.t, "String"); m != nil && m.Signature.Params().Len() == 0 {
				if p, ok := it.v.(*value); ok && p == nil {
					return "<nil>"
				}
				return r.formatOne(fr, verb, call(fr.i, fr, 0, m, []value{it.v}))
			}
		}
		if v == 'T' {
			return it.t.String()
		}
		arg = it.v
	}
	switch a := arg.(type) {
	case *symStr:
		switch v {
		case 's', 'v':
			if verb == "%s" || verb == "%v" {
				return a
			}
		}
		return "\x00sym" + string(v) + "\x00"
	case *enumStr:
		// a selector that the path condition has pinned to one value gives a concrete text
		if a.idx.op == "var" {
			if rg := r.rangeVar(a.idx); rg.lo == rg.hi && int(rg.lo) < len(a.choices) {
				return fmt.Sprintf(verb, a.choices[rg.lo])
			}
		}
		// format every choice; the result is again a finite-choice string on the same selector
		out := &enumStr{idx: a.idx}
		for _, c := range a.choices {
			out.choices = append(out.choices, fmt.Sprintf(verb, c))
		}
		return out
	case symInt:
		if v == 'c' {
			p := r.pool
			res, _ := r.sat(p.Cmp("bvule", p.Const(a.t.w, 0x80), a.t))
			if res == Unsat && a.t.w >= 8 {
				return mkStr([]value{fromIntTerm(types.Uint8, p.Extract(7, 0, a.t))})
			}
		}
		return "\x00sym" + string(v) + "\x00"
	case symBool:
		return "\x00symb\x00"
	case string:
		return fmt.Sprintf(verb, a)
	case bool, int, int8, int16, int32, int64, uint, uint8, uint16, uint32, uint64, uintptr, float32, float64:
		return fmt.Sprintf(verb, a)
	case []value:
		// []byte / []string etc.
		allBytes := len(a) > 0
		for _, x := range a {
			if _, ok := x.(uint8); !ok {
				allBytes = false
			}
		}
		if allBytes && (v == 's' || v == 'q' || v == 'x') {
			bs := make([]byte, len(a))
			for i, x := range a {
				bs[i] = x.(uint8)
			}
			return fmt.Sprintf(verb, bs)
		}
		var parts []value
		parts = append(parts, "[")
		for i, x := range a {
			if i > 0 {
				parts = append(parts, " ")
			}
			parts = append(parts, r.formatOne(fr, verb, x))
		}
		parts = append(parts, "]")
		return concatStr(parts)
	case *value:
		if a == nil {
			return "<nil>"
		}
		return "&" + toString(*a)
	}
	return toString(arg)
}
