package main

// Symbolic scalar values that live next to the interpreter's native Go values.

import (
	"fmt"
	"go/token"
	"go/types"
)

// symInt is an integer of basic kind k whose value is the bit-vector term t.
type symInt struct {
	k types.BasicKind
	t *Term
}

// symBool is a Boolean whose value is the term t.
type symBool struct{ t *Term }

// symStr is a string of concrete length whose bytes may be symbolic
// (each element is uint8 or symInt{Uint8}).
type symStr struct{ b []value }

// enumStr is a string that is one of a finite list of constants, selected by idx.
type enumStr struct {
	choices []string
	idx     *Term // width 8
}

// symPtr is the address of one of several slots, selected by idx (an int-width term
// known to be within [0,len(cands))).
type symPtr struct {
	cands []*value
	idx   *Term
}

func kindWidth(k types.BasicKind) int {
	switch k {
	case types.Int8, types.Uint8:
		return 8
	case types.Int16, types.Uint16:
		return 16
	case types.Int32, types.Uint32, types.UntypedRune:
		return 32
	case types.Int, types.Uint, types.Int64, types.Uint64, types.Uintptr, types.UntypedInt:
		return 64
	}
	panic(fmt.Sprintf("kindWidth: %v", k))
}

func kindSigned(k types.BasicKind) bool {
	switch k {
	case types.Int8, types.Int16, types.Int32, types.Int64, types.Int, types.UntypedInt, types.UntypedRune:
		return true
	}
	return false
}

func valueKind(v value) (types.BasicKind, bool) {
	switch v := v.(type) {
	case int:
		return types.Int, true
	case int8:
		return types.Int8, true
	case int16:
		return types.Int16, true
	case int32:
		return types.Int32, true
	case int64:
		return types.Int64, true
	case uint:
		return types.Uint, true
	case uint8:
		return types.Uint8, true
	case uint16:
		return types.Uint16, true
	case uint32:
		return types.Uint32, true
	case uint64:
		return types.Uint64, true
	case uintptr:
		return types.Uintptr, true
	case symInt:
		return v.k, true
	}
	return 0, false
}

func isSym(v value) bool {
	switch v.(type) {
	case symInt, symBool, *symStr, *enumStr:
		return true
	}
	return false
}

// nativeOf builds the native Go value of kind k from the low bits of u.
func nativeOf(k types.BasicKind, u uint64) value {
	switch k {
	case types.Int, types.UntypedInt:
		return int(u)
	case types.Int8:
		return int8(u)
	case types.Int16:
		return int16(u)
	case types.Int32, types.UntypedRune:
		return int32(u)
	case types.Int64:
		return int64(u)
	case types.Uint:
		return uint(u)
	case types.Uint8:
		return uint8(u)
	case types.Uint16:
		return uint16(u)
	case types.Uint32:
		return uint32(u)
	case types.Uint64:
		return u
	case types.Uintptr:
		return uintptr(u)
	}
	panic(fmt.Sprintf("nativeOf: %v", k))
}

// intTerm returns the term of an integer value (native or symbolic).
func intTerm(p *TermPool, v value) *Term {
	if s, ok := v.(symInt); ok {
		return s.t
	}
	k, ok := valueKind(v)
	if !ok {
		panic(fmt.Sprintf("intTerm: not an integer: %T", v))
	}
	return p.Const(kindWidth(k), uint64(asInt64(v)))
}

func boolTerm(p *TermPool, v value) *Term {
	switch v := v.(type) {
	case bool:
		return p.Bool(v)
	case symBool:
		return v.t
	}
	panic(fmt.Sprintf("boolTerm: %T", v))
}

// fromIntTerm wraps t as a value of kind k (native when constant).
func fromIntTerm(k types.BasicKind, t *Term) value {
	if t.IsConst() {
		return nativeOf(k, t.val)
	}
	return symInt{k, t}
}

func fromBoolTerm(t *Term) value {
	if t.IsTrue() {
		return true
	}
	if t.IsFalse() {
		return false
	}
	return symBool{t}
}

// anyTerm converts a scalar value into a term (ints and bools only).
func anyTerm(p *TermPool, v value) *Term {
	switch v.(type) {
	case bool, symBool:
		return boolTerm(p, v)
	}
	return intTerm(p, v)
}

func strBytes(v value) []value {
	switch v := v.(type) {
	case string:
		out := make([]value, len(v))
		for i := 0; i < len(v); i++ {
			out[i] = v[i]
		}
		return out
	case *symStr:
		return v.b
	case *enumStr:
		// a finite-choice string used where bytes are needed (buffers, mixed concatenation):
		// its text is not the subject of any check, so it becomes an opaque placeholder
		return strBytes("\x00enum\x00")
	}
	panic(fmt.Sprintf("strBytes: %T", v))
}

// mkStr builds a string value from bytes (native string when all are concrete).
func mkStr(b []value) value {
	allc := true
	for _, x := range b {
		if _, ok := x.(uint8); !ok {
			allc = false
			break
		}
	}
	if allc {
		bs := make([]byte, len(b))
		for i, x := range b {
			bs[i] = x.(uint8)
		}
		return string(bs)
	}
	cp := make([]value, len(b))
	copy(cp, b)
	return &symStr{cp}
}

// strEq returns the (possibly symbolic) equality of two string values.
func strEq(p *TermPool, x, y value) *Term {
	if ex, ok := x.(*enumStr); ok {
		return enumEq(p, ex, y)
	}
	if ey, ok := y.(*enumStr); ok {
		return enumEq(p, ey, x)
	}
	bx, by := strBytes(x), strBytes(y)
	if len(bx) != len(by) {
		return p.Bool(false)
	}
	r := p.Bool(true)
	for i := range bx {
		r = p.And(r, p.Cmp("=", intTerm(p, bx[i]), intTerm(p, by[i])))
		if r.IsFalse() {
			break
		}
	}
	return r
}

func enumEq(p *TermPool, e *enumStr, y value) *Term {
	switch y := y.(type) {
	case string:
		r := p.Bool(false)
		for i, c := range e.choices {
			if c == y {
				r = p.Or(r, p.Cmp("=", e.idx, p.Const(8, uint64(i))))
			}
		}
		return r
	case *enumStr:
		r := p.Bool(false)
		for i, c := range e.choices {
			for j, d := range y.choices {
				if c == d {
					r = p.Or(r, p.And(p.Cmp("=", e.idx, p.Const(8, uint64(i))), p.Cmp("=", y.idx, p.Const(8, uint64(j)))))
				}
			}
		}
		return r
	}
	panic(fmt.Sprintf("enumEq with %T", y))
}

func poolOf(vs ...value) *TermPool {
	for _, v := range vs {
		switch v := v.(type) {
		case symInt:
			return v.t.pool()
		case symBool:
			return v.t.pool()
		case *enumStr:
			return v.idx.pool()
		case *symStr:
			for _, b := range v.b {
				if s, ok := b.(symInt); ok {
					return s.t.pool()
				}
			}
		}
	}
	panic("poolOf: no symbolic operand")
}

// symBinop implements binary operators when at least one operand is symbolic.
func symBinop(op token.Token, t types.Type, x, y value) value {
	p := poolOf(x, y)
	switch x.(type) {
	case bool, symBool:
		a, b := boolTerm(p, x), boolTerm(p, y)
		switch op {
		case token.EQL:
			return fromBoolTerm(p.Iff(a, b))
		case token.NEQ:
			return fromBoolTerm(p.Not(p.Iff(a, b)))
		}
		panic("symBinop: bool op " + op.String())
	case string, *symStr, *enumStr:
		switch op {
		case token.EQL:
			return fromBoolTerm(strEq(p, x, y))
		case token.NEQ:
			return fromBoolTerm(p.Not(strEq(p, x, y)))
		case token.ADD:
			return concatStr([]value{x, y})
		case token.LSS, token.LEQ, token.GTR, token.GEQ:
			if t := enumOrder(p, op, x, y); t != nil {
				return fromBoolTerm(t)
			}
		}
		panic(unsupported("string comparison " + op.String() + " on symbolic text"))
	}
	k, ok := valueKind(x)
	if !ok {
		panic(fmt.Sprintf("symBinop: unsupported operand %T %s %T", x, op, y))
	}
	a := intTerm(p, x)
	signed := kindSigned(k)
	w := a.w
	if op == token.SHL || op == token.SHR {
		// shift count may have a different (unsigned or signed) type and width
		c := intTerm(p, y)
		var over *Term // count >= w
		if c.w > w {
			over = p.Cmp("bvule", p.Const(c.w, uint64(w)), c)
			c = p.Extract(w-1, 0, c)
		} else {
			c = p.ZExt(c, w)
			over = p.Cmp("bvule", p.Const(w, uint64(w)), c)
		}
		var r *Term
		switch {
		case op == token.SHL:
			r = p.Ite(over, p.Const(w, 0), p.Bin("bvshl", a, c))
		case signed:
			r = p.Ite(over, p.Bin("bvashr", a, p.Const(w, uint64(w-1))), p.Bin("bvashr", a, c))
		default:
			r = p.Ite(over, p.Const(w, 0), p.Bin("bvlshr", a, c))
		}
		return fromIntTerm(k, r)
	}
	b := intTerm(p, y)
	cmp := func(sop, uop string, swap, neg bool) value {
		o := uop
		if signed {
			o = sop
		}
		l, r := a, b
		if swap {
			l, r = b, a
		}
		c := p.Cmp(o, l, r)
		if neg {
			c = p.Not(c)
		}
		return fromBoolTerm(c)
	}
	switch op {
	case token.ADD:
		return fromIntTerm(k, p.Bin("bvadd", a, b))
	case token.SUB:
		return fromIntTerm(k, p.Bin("bvsub", a, b))
	case token.MUL:
		return fromIntTerm(k, p.Bin("bvmul", a, b))
	case token.QUO:
		if signed {
			return fromIntTerm(k, p.Bin("bvsdiv", a, b))
		}
		return fromIntTerm(k, p.Bin("bvudiv", a, b))
	case token.REM:
		if signed {
			return fromIntTerm(k, p.Bin("bvsrem", a, b))
		}
		return fromIntTerm(k, p.Bin("bvurem", a, b))
	case token.AND:
		return fromIntTerm(k, p.Bin("bvand", a, b))
	case token.OR:
		return fromIntTerm(k, p.Bin("bvor", a, b))
	case token.XOR:
		return fromIntTerm(k, p.Bin("bvxor", a, b))
	case token.AND_NOT:
		return fromIntTerm(k, p.Bin("bvand", a, p.BvNot(b)))
	case token.EQL:
		return fromBoolTerm(p.Cmp("=", a, b))
	case token.NEQ:
		return fromBoolTerm(p.Not(p.Cmp("=", a, b)))
	case token.LSS:
		return cmp("bvslt", "bvult", false, false)
	case token.LEQ:
		return cmp("bvsle", "bvule", false, false)
	case token.GTR:
		return cmp("bvslt", "bvult", true, false)
	case token.GEQ:
		return cmp("bvsle", "bvule", true, false)
	}
	panic("symBinop: int op " + op.String())
}

func symUnop(op token.Token, x value) value {
	switch x := x.(type) {
	case symBool:
		if op == token.NOT {
			return fromBoolTerm(x.t.pool().Not(x.t))
		}
	case symInt:
		p := x.t.pool()
		switch op {
		case token.SUB:
			return fromIntTerm(x.k, p.BvNeg(x.t))
		case token.XOR:
			return fromIntTerm(x.k, p.BvNot(x.t))
		}
	}
	panic(fmt.Sprintf("symUnop: %s %T", op, x))
}

// symConvInt converts a symbolic integer to another integer kind.
func symConvInt(dst types.BasicKind, x symInt) value {
	p := x.t.pool()
	w := kindWidth(dst)
	if kindSigned(x.k) {
		return fromIntTerm(dst, p.SExt(x.t, w))
	}
	return fromIntTerm(dst, p.ZExt(x.t, w))
}

// iteValue merges two values of the same shape under condition c.
func iteValue(p *TermPool, c *Term, a, b value) value {
	if c.IsTrue() {
		return a
	}
	if c.IsFalse() {
		return b
	}
	switch av := a.(type) {
	case bool, symBool:
		return fromBoolTerm(p.Ite(c, boolTerm(p, a), boolTerm(p, b)))
	case structure:
		bv := b.(structure)
		out := make(structure, len(av))
		for i := range av {
			out[i] = iteValue(p, c, av[i], bv[i])
		}
		return out
	case array:
		bv := b.(array)
		out := make(array, len(av))
		for i := range av {
			out[i] = iteValue(p, c, av[i], bv[i])
		}
		return out
	case string, *symStr:
		ba, bb := strBytes(a), strBytes(b)
		if len(ba) == len(bb) {
			out := make([]value, len(ba))
			for i := range ba {
				out[i] = iteValue(p, c, ba[i], bb[i])
			}
			return mkStr(out)
		}
	}
	if k, ok := valueKind(a); ok {
		return fromIntTerm(k, p.Ite(c, intTerm(p, a), intTerm(p, b)))
	}
	if equalsShallow(a, b) {
		return a
	}
	panic(unsupported(fmt.Sprintf("iteValue: cannot merge %T and %T", a, b)))
}

func equalsShallow(a, b value) (eq bool) {
	defer func() {
		if recover() != nil {
			eq = false
		}
	}()
	return a == b
}


// enumOrder: ordering comparison where each side is a concrete string or a finite-choice string.
func enumOrder(p *TermPool, op token.Token, x, y value) *Term {
	type side struct {
		choices []string
		idx     *Term
	}
	mk := func(v value) *side {
		switch v := v.(type) {
		case string:
			return &side{choices: []string{v}}
		case *enumStr:
			return &side{choices: v.choices, idx: v.idx}
		}
		return nil
	}
	a, b := mk(x), mk(y)
	if a == nil || b == nil {
		return nil
	}
	holds := func(s, t string) bool {
		switch op {
		case token.LSS:
			return s < t
		case token.LEQ:
			return s <= t
		case token.GTR:
			return s > t
		}
		return s >= t
	}
	res := p.Bool(false)
	for i, s := range a.choices {
		for j, t := range b.choices {
			if !holds(s, t) {
				continue
			}
			c := p.Bool(true)
			if a.idx != nil {
				c = p.And(c, p.Cmp("=", a.idx, p.Const(8, uint64(i))))
			}
			if b.idx != nil {
				c = p.And(c, p.Cmp("=", b.idx, p.Const(8, uint64(j))))
			}
			res = p.Or(res, c)
		}
	}
	return res
}
