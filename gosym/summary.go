package main

// Summaries: a loop-free function over integer/Boolean scalars is translated, block guards
// in topological order, into one SMT define-fun.  Calls with symbolic arguments then become
// an application term instead of a fork over the function's internal branches.

import (
	"fmt"
	"go/constant"
	"go/token"
	"go/types"

	"golang.org/x/tools/go/ssa"
)

func scalarKind(t types.Type) (types.BasicKind, bool) {
	b, ok := t.Underlying().(*types.Basic)
	if !ok {
		return 0, false
	}
	if b.Info()&types.IsInteger != 0 {
		return b.Kind(), true
	}
	if b.Kind() == types.Bool {
		return types.Bool, true
	}
	return 0, false
}

// buildSummary translates fn; it panics with unsupportedPanic if fn is outside the fragment.
func buildSummary(pool *TermPool, fn *ssa.Function, lookup func(*ssa.Function) *FuncDef) *FuncDef {
	name := "f_" + sanitize(fn.String())
	if fn.Signature.Results().Len() != 1 {
		panic(unsupported("summary: " + fn.String() + " must have exactly one result"))
	}
	env := map[ssa.Value]value{}
	var params []*Term
	for i, p := range fn.Params {
		k, ok := scalarKind(p.Type())
		if !ok {
			panic(unsupported("summary: non-scalar parameter in " + fn.String()))
		}
		if k == types.Bool {
			v := pool.Var(fmt.Sprintf("%s_p%d", name, i), 0)
			params = append(params, v)
			env[p] = symBool{v}
		} else {
			v := pool.Var(fmt.Sprintf("%s_p%d", name, i), kindWidth(k))
			params = append(params, v)
			env[p] = symInt{k, v}
		}
	}
	// topological order (reject cycles)
	order := []*ssa.BasicBlock{}
	state := map[*ssa.BasicBlock]int{}
	var dfs func(b *ssa.BasicBlock)
	dfs = func(b *ssa.BasicBlock) {
		state[b] = 1
		for _, s := range b.Succs {
			if state[s] == 1 {
				panic(unsupported("summary: loop in " + fn.String()))
			}
			if state[s] == 0 {
				dfs(s)
			}
		}
		state[b] = 2
		order = append(order, b)
	}
	dfs(fn.Blocks[0])
	for i, j := 0, len(order)-1; i < j; i, j = i+1, j-1 {
		order[i], order[j] = order[j], order[i]
	}
	guard := map[*ssa.BasicBlock]*Term{fn.Blocks[0]: pool.Bool(true)}
	type edge struct{ from, to *ssa.BasicBlock }
	edgeCond := map[edge]*Term{}
	get := func(v ssa.Value) value {
		switch v := v.(type) {
		case *ssa.Const:
			return constValue(v)
		}
		if r, ok := env[v]; ok {
			return r
		}
		panic(unsupported(fmt.Sprintf("summary: value %s (%T) in %s", v.Name(), v, fn)))
	}
	var ret *Term
	var retKind types.BasicKind
	rk, ok := scalarKind(fn.Signature.Results().At(0).Type())
	if !ok {
		panic(unsupported("summary: non-scalar result in " + fn.String()))
	}
	retKind = rk
	for _, b := range order {
		g := guard[b]
		if g == nil {
			// join: OR of incoming edges
			g = pool.Bool(false)
			for _, p := range b.Preds {
				if ec, ok := edgeCond[edge{p, b}]; ok {
					g = pool.Or(g, ec)
				}
			}
			guard[b] = g
		}
		for _, ins := range b.Instrs {
			switch ins := ins.(type) {
			case *ssa.Phi:
				var res value
				for i := len(b.Preds) - 1; i >= 0; i-- {
					ec, ok := edgeCond[edge{b.Preds[i], b}]
					if !ok {
						continue
					}
					e := get(ins.Edges[i])
					if res == nil {
						res = e
					} else {
						res = iteValue(pool, ec, e, res)
					}
				}
				env[ins] = res
			case *ssa.BinOp:
				x, y := get(ins.X), get(ins.Y)
				if ins.Op == token.QUO || ins.Op == token.REM {
					panic(unsupported("summary: division in " + fn.String()))
				}
				env[ins] = binop(ins.Op, ins.X.Type(), x, y)
			case *ssa.UnOp:
				if ins.Op == token.MUL || ins.Op == token.ARROW {
					panic(unsupported("summary: load in " + fn.String()))
				}
				env[ins] = unop(ins, get(ins.X))
			case *ssa.Convert:
				x := get(ins.X)
				k, ok := scalarKind(ins.Type())
				if !ok || k == types.Bool {
					panic(unsupported("summary: conversion in " + fn.String()))
				}
				if s, ok := x.(symInt); ok {
					env[ins] = symConvInt(k, s)
				} else {
					env[ins] = conv(ins.Type(), ins.X.Type(), x)
				}
			case *ssa.ChangeType:
				env[ins] = get(ins.X)
			case *ssa.Call:
				callee := ins.Call.StaticCallee()
				if callee == nil || ins.Call.IsInvoke() {
					panic(unsupported("summary: dynamic call in " + fn.String()))
				}
				fd := lookup(callee)
				if fd == nil {
					panic(unsupported("summary: call to unsummarised " + callee.String()))
				}
				var args []*Term
				for _, a := range ins.Call.Args {
					args = append(args, anyTerm(pool, get(a)))
				}
				t := pool.App(fd, args)
				if k, _ := scalarKind(ins.Type()); k == types.Bool {
					env[ins] = fromBoolTerm(t)
				} else {
					env[ins] = fromIntTerm(k, t)
				}
			case *ssa.If:
				c := boolTerm(pool, get(ins.Cond))
				edgeCond[edge{b, b.Succs[0]}] = orNil(pool, edgeCond[edge{b, b.Succs[0]}], pool.And(g, c))
				edgeCond[edge{b, b.Succs[1]}] = orNil(pool, edgeCond[edge{b, b.Succs[1]}], pool.And(g, pool.Not(c)))
			case *ssa.Jump:
				edgeCond[edge{b, b.Succs[0]}] = orNil(pool, edgeCond[edge{b, b.Succs[0]}], g)
			case *ssa.Return:
				v := anyTerm(pool, get(ins.Results[0]))
				if ret == nil {
					ret = v
				} else {
					ret = pool.Ite(g, v, ret)
				}
			case *ssa.DebugRef:
			default:
				panic(unsupported(fmt.Sprintf("summary: instruction %T in %s", ins, fn)))
			}
		}
	}
	if ret == nil {
		panic(unsupported("summary: no return in " + fn.String()))
	}
	_ = retKind
	return pool.DefineFunc(name, params, ret)
}

func orNil(p *TermPool, a, b *Term) *Term {
	if a == nil {
		return b
	}
	return p.Or(a, b)
}

// applySummary returns the application value for a call with (some) symbolic arguments.
func applySummary(pool *TermPool, fd *FuncDef, fn *ssa.Function, args []value) value {
	var ts []*Term
	anyConst := false
	for _, a := range args {
		x := anyTerm(pool, a)
		if x.IsConst() || x.IsTrue() || x.IsFalse() {
			anyConst = true
		}
		ts = append(ts, x)
	}
	var t *Term
	if anyConst {
		// partial evaluation: inline the body specialised to the constant arguments
		key := fd.name
		env := map[string]*Term{}
		for i, x := range ts {
			if x.IsConst() || x.IsTrue() || x.IsFalse() {
				key += fmt.Sprintf("|%d=%d", i, x.id)
				env[fd.params[i].name] = x
			}
		}
		spec, ok := pool.specCache[key]
		if !ok {
			spec = pool.Subst(fd.body, env, map[int]*Term{})
			pool.specCache[key] = spec
		}
		if spec.Size() <= 400 {
			env2 := map[string]*Term{}
			for i, x := range ts {
				env2[fd.params[i].name] = x
			}
			t = pool.Subst(spec, env2, map[int]*Term{})
		}
	}
	if t == nil {
		t = pool.App(fd, ts)
	}
	k, _ := scalarKind(fn.Signature.Results().At(0).Type())
	if k == types.Bool {
		return fromBoolTerm(t)
	}
	return fromIntTerm(k, t)
}

// interesting constants of a function, for summary validation vectors
func intConsts(fn *ssa.Function) []int64 {
	seen := map[int64]bool{}
	var out []int64
	add := func(v int64) {
		if !seen[v] {
			seen[v] = true
			out = append(out, v)
		}
	}
	for _, b := range fn.Blocks {
		for _, ins := range b.Instrs {
			for _, op := range ins.Operands(nil) {
				if c, ok := (*op).(*ssa.Const); ok && c.Value != nil && c.Value.Kind() == constant.Int {
					if v, ok := constant.Int64Val(c.Value); ok {
						add(v)
					}
				}
			}
		}
	}
	return out
}
