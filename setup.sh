#!/bin/sh
# Builds the verification framework from files on disk only (offline).
set -e
cd "$(dirname "$0")"
mkdir -p bin evidence replays
( cd gosym && GOFLAGS=-mod=mod GOPROXY=off GOTOOLCHAIN=local GOSUMDB=off go1.26.8 build -o ../bin/gosym . )
python3-vt -m compileall -q lib ref >/dev/null
echo "setup ok"
