"""Reads the predefined patterns from the current source of internal/ebnf/parser/parser.go."""
import os
import re

from common import REPO


def read_predefs():
    src = open(os.path.join(REPO, 'internal/ebnf/parser/parser.go')).read()
    m = re.search(r'var Predefs = map\[string\]string\{(.*?)\n\}', src, re.S)
    out = {}
    if m:
        for k, v in re.findall(r'"(\$[A-Z]+)":\s*`([^`]*)`', m.group(1)):
            out[k] = v
    return out
