"""Re-runs the registered quick checks against every seeded change (scratch worktree with the patch applied,
VERIF_REPO pointing at it) and writes /verif/seeded/REGRESSION.json: seed -> {check: caught?}.
usage: seedregress.py [workers] [seed name prefix ...]"""
import json
import os
import shutil
import subprocess
import sys
import time
from concurrent.futures import ThreadPoolExecutor

sys.path.insert(0, os.path.dirname(os.path.abspath(__file__)))
from common import VERIF, REPO, go_env


def one(name):
    d = os.path.join(VERIF, 'seeded', name)
    meta = json.load(open(os.path.join(d, 'meta.json')))
    props = [p for p, c in meta.get('checks', {}).items() if c.get('caught')] or list(meta.get('checks', {}).keys())
    wt, out_dir = '/tmp/sr_' + name, '/tmp/sr_out_' + name
    subprocess.run(['git', '-C', REPO, 'worktree', 'remove', '--force', wt], stdout=subprocess.DEVNULL, stderr=subprocess.DEVNULL)
    shutil.rmtree(out_dir, ignore_errors=True)
    os.makedirs(os.path.join(out_dir, 'evidence'))
    os.makedirs(os.path.join(out_dir, 'replays'))
    res = {'props': {}, 'patch_applies': True}
    try:
        subprocess.run(['git', '-C', REPO, 'worktree', 'add', '--detach', wt, 'HEAD'], stdout=subprocess.DEVNULL, stderr=subprocess.DEVNULL)
        p = subprocess.run(['git', 'apply', os.path.join(d, 'patch.diff')], cwd=wt, stdout=subprocess.PIPE, stderr=subprocess.STDOUT, text=True)
        if p.returncode != 0:
            res['patch_applies'] = False
            res['note'] = p.stdout[-200:]
            return name, res
        for prop in props:
            env = go_env()
            env.update({'VERIF_REPO': wt, 'VERIF_EVIDENCE_DIR': os.path.join(out_dir, 'evidence'), 'VERIF_REPLAYS_DIR': os.path.join(out_dir, 'replays')})
            t0 = time.time()
            pr = subprocess.run([os.path.join(VERIF, 'check'), prop, 'quick'], cwd=VERIF, env=env, stdout=subprocess.PIPE, stderr=subprocess.STDOUT, text=True, timeout=3 * 3600)
            first = [l for l in pr.stdout.splitlines() if l.startswith('  ')][:1]
            res['props'][prop] = {'exit': pr.returncode, 'caught': pr.returncode == 1, 'wall_s': round(time.time() - t0, 1), 'first': (first[0].strip()[:200] if first else '')}
    finally:
        subprocess.run(['git', '-C', REPO, 'worktree', 'remove', '--force', wt], stdout=subprocess.DEVNULL, stderr=subprocess.DEVNULL)
        shutil.rmtree(out_dir, ignore_errors=True)
    print(name, {k: v['exit'] for k, v in res['props'].items()}, flush=True)
    return name, res


def main():
    workers = int(sys.argv[1]) if len(sys.argv) > 1 else 2
    prefixes = sys.argv[2:]
    names = sorted(n for n in os.listdir(os.path.join(VERIF, 'seeded')) if os.path.isdir(os.path.join(VERIF, 'seeded', n)))
    if prefixes:
        names = [n for n in names if any(n.startswith(p) for p in prefixes)]
    out_path = os.path.join(VERIF, 'seeded', 'REGRESSION.json')
    allres = json.load(open(out_path)) if os.path.exists(out_path) else {}
    head = subprocess.run(['git', '-C', REPO, 'rev-parse', '--short', 'HEAD'], stdout=subprocess.PIPE, text=True).stdout.strip()
    with ThreadPoolExecutor(workers) as ex:
        for name, res in ex.map(one, names):
            res['repo_head'] = head
            allres[name] = res
            with open(out_path, 'w') as f:
                json.dump(allres, f, indent=1, sort_keys=True)
    missed = [n for n in names if allres[n]['patch_applies'] and not any(v['caught'] for v in allres[n]['props'].values())]
    print('seeds run: %d; not caught: %s; patch no longer applies: %s' % (len(names), missed, [n for n in names if not allres[n]['patch_applies']]))


if __name__ == '__main__':
    main()
