"""C17 (partial): processing is a pure function of the text - no interference between runs or goroutines.

Two-thread mode of gosym: two harness threads run as coroutines; every call, load, store and map access
inside the watched functions is a preemption point, and the schedule (bounded number of context
switches) is a path decision, so all such schedules are explored.  Each thread's result must equal the
result computed in isolation; a result must not depend on what was processed before."""
import os
import re
import subprocess

from common import *
import lr

WATCH_HASH = [lr.SPEC_PKG + '.hashStrings', 'hash/fnv']
WATCH_OWN = [lr.SPEC_PKG + '.', '(*' + lr.SPEC_PKG + '.', '(' + lr.SPEC_PKG + '.']
WATCH_PARSE = [lr.SPEC_PKG + '.hashStrings', lr.SPEC_PKG + '.eqStrings', 'hash/fnv', '(*' + lr.SPEC_PKG + '.SymbolTable).Get']


def native_race(sc, sfs, extra):
    """Runs the two bodies on real goroutines under the race detector."""
    ov = overlay_map(lr.SPEC_REL, list(sfs) + [os.path.join(lr.SPEC_HDIR, 'zz_verif_race_test.go')], extra)
    op = sc.path('overlay_race.json')
    import json
    with open(op, 'w') as f:
        json.dump({'Replace': ov}, f)
    p = subprocess.run(['go', 'test', '-tags', 'verif', '-race', '-vet=off', '-count=1', '-overlay', op, '-run', '^TestVerifRace$', './' + lr.SPEC_REL],
                       cwd=REPO, env=go_env(), stdout=subprocess.PIPE, stderr=subprocess.STDOUT, text=True, timeout=1200)
    out = p.stdout
    m = re.search(r'WARNING: DATA RACE\n(?:.*\n){1,6}', out)
    if m or 'VERIF-RACE-RESULT' in out:
        return True, (m.group(0) if m else re.search(r'VERIF-RACE-RESULT.*', out).group(0))[:600]
    return False, out[-400:]


def run(tier, rep):
    thorough = tier == 'thorough'
    with Scratch() as sc:
        sfs, extra = lr.spec_files(sc, specK=3)
        parts = [('harnessC17Hash', WATCH_HASH, 3 if thorough else 2, False,
                  'hashStrings on two goroutines: every schedule with <= %d context switches at calls/loads/stores inside hashStrings and hash/fnv'),
                 ('harnessC17Parse', WATCH_OWN, 1, False,  # two switches over the whole package did not finish within an hour
                  'spec.Parse of two specifications on two goroutines: every schedule with <= %d context switches at calls/loads/stores inside emerge\'s own spec package (library calls atomic)'),
                 ('harnessC17Parse', WATCH_PARSE, 1, True,
                  'the same with the hashers of the library preemptible too (<= %d context switch inside hash/fnv, hashStrings, eqStrings, SymbolTable.Get*)')]
        known = {k['tag']: k for k in open_findings('C17')}
        for entry, watch, sw, lib, label in parts:
            cfg = lr.spec_cfg(sfs, extra, entry, tier, watch=watch, max_switches=sw, opaque_pkgs=['math/rand'], max_steps=80000000, max_violations=6)
            res = run_gosym(cfg, sc, entry + ('_lib' if lib else ''), timeout=6 * 3600)
            merge_gosym(rep, res, label % sw)
            vs = res.get('violations') or []
            if vs:
                confirmed, detail = native_race(sc, sfs, extra)
                rep.coverage['traces_validated_against_impl'] = rep.coverage.get('traces_validated_against_impl', 0) + 1
                v = vs[0]
                what = '%s: %s; schedule: %s; native (race detector on real goroutines): %s' % (entry, v['msg'], (v.get('tags') or [])[:3], detail.replace('\n', ' | ')[:400])
                in_library = 'moorara/algo' in detail and 'spec.hashStrings' not in detail
                if confirmed and lib and in_library and 'C17-library-shared-hashers' in known:
                    rep.known_finding('C17-library-shared-hashers %s [schedule: %s; race detector: %s]' % (known['C17-library-shared-hashers']['what'], (v.get('tags') or [])[:1], detail.replace('\n', ' | ')[:200]))
                elif confirmed:
                    rep.violation(what, {'harness': entry, 'inputs': v['inputs'], 'schedule': v.get('tags'), 'msg': v['msg'], 'native': detail})
                else:
                    rep.inconc('schedule-dependent counterexample not confirmed by the race detector: ' + what)
        # histories over accepted and rejected specifications (sequential)
        cfg = lr.spec_cfg(sfs, extra, 'harnessC17History', tier, opaque_pkgs=['math/rand'], max_steps=80000000, max_violations=6)
        res = run_gosym(cfg, sc, 'history', timeout=6 * 3600)
        merge_gosym(rep, res, 'spec.Parse + Spec.DFA of every ordered pair of 7 specifications (accepted and rejected ones): the outcome of the first is the same before and after the second')
        for v in (res.get('violations') or [])[:3]:
            outcome, out = native_replay(lr.SPEC_REL, 'spec', sfs, v['harness'], v['inputs'], sc, extra_overlay=extra)
            rep.coverage['traces_validated_against_impl'] = rep.coverage.get('traces_validated_against_impl', 0) + 1
            what = '%s: %s inputs=%s native=%s' % (v['harness'], v['msg'][:300], [(i['name'], i['value']) for i in v['inputs'] or []], outcome)
            if outcome.startswith('assert-failed') or outcome.startswith('panic'):
                rep.violation(what, {'harness': v['harness'], 'pkg': lr.SPEC_REL, 'inputs': v['inputs'], 'msg': v['msg'], 'native': outcome})
            else:
                rep.inconc('counterexample did not reproduce natively: ' + what)
        # patterns: histories and two goroutines
        import c09
        pfs = c09.files(sc, 4)
        for watch, sw, label in ((None, 0, 'nfa.Parse of every ordered pair of 8 patterns (well-formed, semantically and syntactically defective): outcome before = outcome after; the two on two goroutines without preemption'),
                                 ([c09.PKG + '.', '(*' + c09.PKG + '.', MODULE + '/internal/regex/parser.'], 1, 'the same with one context switch at calls/loads/stores inside emerge\'s own pattern packages')):
            kw = dict(watch=watch, max_switches=sw) if watch else {}
            cfg = c09.cfg(pfs, 'harnessC17Patterns', tier, max_violations=6, max_steps=80000000, **kw)
            res = run_gosym(cfg, sc, 'patterns%d' % sw, timeout=6 * 3600)
            merge_gosym(rep, res, label)
            vs = res.get('violations') or []
            if vs:
                v = vs[0]
                outcome, out = native_replay(c09.REL, 'nfa', pfs, v['harness'], v['inputs'], sc)
                rep.coverage['traces_validated_against_impl'] = rep.coverage.get('traces_validated_against_impl', 0) + 1
                detail = outcome
                confirmed = outcome.startswith('assert-failed') or outcome.startswith('panic')
                if not confirmed:
                    # schedule-dependent: real goroutines under the race detector
                    ov = overlay_map(c09.REL, list(pfs) + [os.path.join(c09.HDIR, 'zz_verif_race_test.go')])
                    op = sc.path('overlay_race_nfa.json')
                    import json
                    with open(op, 'w') as f:
                        json.dump({'Replace': ov}, f)
                    p = subprocess.run(['go', 'test', '-tags', 'verif', '-race', '-vet=off', '-count=1', '-overlay', op, '-run', '^TestVerifRace$', './' + c09.REL],
                                       cwd=REPO, env=go_env(), stdout=subprocess.PIPE, stderr=subprocess.STDOUT, text=True, timeout=1200)
                    m = re.search(r'WARNING: DATA RACE\n(?:.*\n){1,6}', p.stdout) or re.search(r'VERIF-RACE-RESULT.*', p.stdout)
                    confirmed = bool(m)
                    detail = (m.group(0) if m else p.stdout[-300:]).replace('\n', ' | ')[:400]
                what = '%s: %s; schedule: %s; native: %s' % (v['harness'], v['msg'][:300], (v.get('tags') or [])[:2], detail)
                if confirmed:
                    rep.violation(what, {'harness': v['harness'], 'pkg': c09.REL, 'inputs': v['inputs'], 'schedule': v.get('tags'), 'msg': v['msg'], 'native': detail})
                else:
                    rep.inconc('counterexample not confirmed natively: ' + what)
        rep.assumptions += [
            'threads are coroutines of the interpreter; preemption points = calls, loads, stores and map accesses inside the watched functions; everything else runs atomically',
            'bounded number of context switches per schedule; data are a few concrete lists / specifications (the symbolic dimension is the schedule)',
            'NOT decided: whole-pipeline concurrency beyond the watched functions, and data-race freedom in the sense of the Go memory model (the race detector is used only to confirm a counterexample natively)',
            'math/rand is opaque (the library shuffles before sorting; a shuffle does not change a sorted result)',
        ]
