"""Go source generators for reference automata (tables become loop-free switch functions
that gosym summarises into SMT define-funs)."""


def gen_delta(name, dfa, dead=-1):
    out = ['func %s(q int, r rune) int {' % name, '\tswitch q {']
    for q in range(dfa.n):
        tr = dfa.trans.get(q, [])
        if not tr:
            continue
        out.append('\tcase %d:' % q)
        out.append('\t\tswitch {')
        for (a, b), t in tr:
            if a == b:
                out.append('\t\tcase r == %d:' % a)
            else:
                out.append('\t\tcase r >= %d && r <= %d:' % (a, b))
            out.append('\t\t\treturn %d' % t)
        out.append('\t\t}')
    out.append('\t}')
    out.append('\treturn %d' % dead)
    out.append('}')
    return '\n'.join(out) + '\n'


def gen_label(name, dfa, none='""'):
    out = ['func %s(q int) string {' % name, '\tswitch q {']
    bylab = {}
    for q, l in sorted(dfa.label.items()):
        bylab.setdefault(l, []).append(q)
    for l, qs in sorted(bylab.items()):
        out.append('\tcase %s:' % ', '.join(str(q) for q in qs))
        out.append('\t\treturn %s' % go_str(l))
    out.append('\t}')
    out.append('\treturn %s' % none)
    out.append('}')
    return '\n'.join(out) + '\n'


def go_str(s):
    out = '"'
    for ch in s:
        o = ord(ch)
        if ch in '"\\':
            out += '\\' + ch
        elif 0x20 <= o < 0x7F:
            out += ch
        elif o < 0x80:
            out += '\\x%02x' % o
        elif o < 0x10000:
            out += '\\u%04x' % o
        else:
            out += '\\U%08x' % o
    return out + '"'


def gen_pairs(name, pairs):
    return 'var %s = [][2]int{%s}\n' % (name, ', '.join('{%d, %d}' % p for p in pairs))


def gen_label_code(name, dfa, prefix='refCode'):
    """Integer-coded labels (summarisable): 0 = not accepting."""
    labs = sorted(set(dfa.label.values()))
    code = {l: i + 1 for i, l in enumerate(labs)}
    out = ['const (']
    for l, c in code.items():
        ident = ''.join(ch if ch.isalnum() else '_%02x' % ord(ch) for ch in l)
        out.append('\t%s%s = %d' % (prefix, ident, c))
    out.append(')')
    out.append('func %s(q int) int {' % name)
    out.append('\tswitch q {')
    bylab = {}
    for q, l in sorted(dfa.label.items()):
        bylab.setdefault(l, []).append(q)
    for l, qs in sorted(bylab.items()):
        out.append('\tcase %s:' % ', '.join(str(q) for q in qs))
        out.append('\t\treturn %d' % code[l])
    out.append('\t}')
    out.append('\treturn 0')
    out.append('}')
    return '\n'.join(out) + '\n'
