"""Solver side of Layer T: the universally quantified dimension (all words, all symbols, all
sentences) of each translation-validation check is one SMT query over bit-vectors/Booleans.

Encodings (DESIGN.md section 5.3):
  * symbolic word w[0..L) of 21-bit code points with symbolic length n <= L;
  * regex denotation as a span matrix M[node,i,j] built from the documented meaning;
  * deterministic automaton run q_{i+1} = delta(q_i, w_i) with delta an ite-table;
  * labelled bisimulation step with symbolic (pair, symbol), no length bound;
  * CFG membership by stratified CYK (least fixed point by span length and Kleene rounds).
"""
import time

import z3

import regex_ref as rr

CW = 21  # code point width
DEADV = 0xFFFF
SW = 16  # state width


class Stats:
    def __init__(self):
        self.queries = 0
        self.sat = 0
        self.unsat = 0
        self.unknown = 0
        self.seconds = 0.0

    def add(self, o):
        self.queries += o.queries
        self.sat += o.sat
        self.unsat += o.unsat
        self.unknown += o.unknown
        self.seconds += o.seconds


def check(solver, stats):
    t0 = time.time()
    r = solver.check()
    stats.seconds += time.time() - t0
    stats.queries += 1
    if r == z3.sat:
        stats.sat += 1
    elif r == z3.unsat:
        stats.unsat += 1
    else:
        stats.unknown += 1
    return r


def new_solver(timeout_ms=60000):
    s = z3.SolverFor('QF_BV')
    s.set('timeout', timeout_ms)
    return s


def in_set(c, intervals):
    terms = []
    for lo, hi in intervals:
        if lo == hi:
            terms.append(c == lo)
        else:
            terms.append(z3.And(z3.UGE(c, lo), z3.ULE(c, hi)))
    return z3.Or(terms) if terms else z3.BoolVal(False)


# ---- automata from the dump driver ----------------------------------------------------------

class Auto:
    """Deterministic automaton from a dump: rows[state] = list of ((lo,hi), next)."""

    def __init__(self, dump=None):
        self.start = 0
        self.final = set()
        self.rows = {}
        self.states = set()
        if dump is not None:
            self.start = dump['start']
            self.final = set(dump.get('final') or [])
            per = {}
            self.states.add(self.start)
            self.states |= self.final
            for s, a, t in dump.get('trans') or []:
                per.setdefault(s, []).append((a, t))
                self.states.add(s)
                self.states.add(t)
            for s, lst in per.items():
                lst.sort()
                row = []
                for a, t in lst:
                    if row and row[-1][1] == t and row[-1][0][1] + 1 == a:
                        row[-1] = ((row[-1][0][0], a), t)
                    else:
                        row.append(((a, a), t))
                self.rows[s] = row

    def step(self, q, c):
        for (lo, hi), t in self.rows.get(q, ()):
            if lo <= c <= hi:
                return t
        return None

    def accepts(self, word):
        q = self.start
        for c in word:
            q = self.step(q, c)
            if q is None:
                return False
        return q in self.final

    def symbols_partition(self):
        cuts = {0, 0x110000}
        for row in self.rows.values():
            for (lo, hi), _ in row:
                cuts.add(lo)
                cuts.add(hi + 1)
        return cuts


def delta_expr(auto, q, c):
    """z3 expression of delta(q, c) (DEADV when undefined)."""
    e = z3.BitVecVal(DEADV, SW)
    for s in sorted(auto.rows, reverse=True):
        r = z3.BitVecVal(DEADV, SW)
        for (lo, hi), t in reversed(auto.rows[s]):
            cond = (c == lo) if lo == hi else z3.And(z3.UGE(c, lo), z3.ULE(c, hi))
            r = z3.If(cond, z3.BitVecVal(t, SW), r)
        e = z3.If(q == s, r, e)
    return e


def final_expr(auto, q):
    return z3.Or([q == f for f in sorted(auto.final)]) if auto.final else z3.BoolVal(False)


def run_accept(auto, w, n, L):
    """Boolean: the automaton accepts w[0:n]."""
    q = z3.BitVecVal(auto.start, SW)
    acc = [z3.And(n == 0, final_expr(auto, q))]
    for i in range(L):
        q = delta_expr(auto, q, w[i])
        acc.append(z3.And(n == i + 1, final_expr(auto, q)))
    return z3.Or(acc)


# ---- NFA of the library (symbol 0 is its epsilon) -> reference subset construction --------------

def determinize_nfa(dump):
    """Subset construction of a dumped library NFA, treating symbol 0 as epsilon as the library
    documents (`E` is the empty string).  Returns an Auto."""
    eps, tr = {}, {}
    for row in dump.get('trans') or []:
        s, a, nxt = row[0], row[1], row[2:]
        if a == 0:
            eps.setdefault(s, set()).update(nxt)
        else:
            tr.setdefault(s, {}).setdefault(a, set()).update(nxt)

    def clo(S):
        st, seen = list(S), set(S)
        while st:
            x = st.pop()
            for y in eps.get(x, ()):
                if y not in seen:
                    seen.add(y)
                    st.append(y)
        return frozenset(seen)

    start = clo({dump['start']})
    ids = {start: 0}
    work = [start]
    out = Auto()
    finals = set(dump.get('final') or [])
    per = {}
    while work:
        S = work.pop()
        sid = ids[S]
        out.states.add(sid)
        if S & finals:
            out.final.add(sid)
        syms = set()
        for x in S:
            syms |= set(tr.get(x, {}))
        lst = []
        for a in sorted(syms):
            T = set()
            for x in S:
                T |= tr.get(x, {}).get(a, set())
            T = clo(T)
            if T not in ids:
                ids[T] = len(ids)
                work.append(T)
            lst.append((a, ids[T]))
        row = []
        for a, t in lst:
            if row and row[-1][1] == t and row[-1][0][1] + 1 == a:
                row[-1] = ((row[-1][0][0], a), t)
            else:
                row.append(((a, a), t))
        if row:
            out.rows[sid] = row
    return out


# ---- regex denotation -------------------------------------------------------------------------------

def regex_matrix(tree, w, L, nul_quirk=False):
    memo = {}

    def M(x, i, j):
        key = (id(x), i, j)
        if key in memo:
            return memo[key]
        k = x[0]
        if rr.is_set(x):
            r = in_set(w[i], rr.charset(x)) if j == i + 1 else z3.BoolVal(False)
            if nul_quirk and j == i and rr.impl_set_has_nul(x):
                r = z3.BoolVal(True)
        elif k == 'grp':
            r = M(x[1], i, j)
        elif k == 'alt':
            r = z3.Or([M(y, i, j) for y in x[1]])
        elif k == 'cat':
            r = cat(tuple(x[1]), x, 0, i, j)
        elif k == 'q':
            r = rep(x, i, j)
        else:
            raise ValueError(k)
        r = z3.simplify(r)
        memo[key] = r
        return r

    def cat(items, owner, idx, i, j):
        key = ('cat', id(owner), idx, i, j)
        if key in memo:
            return memo[key]
        if idx == len(items) - 1:
            r = M(items[idx], i, j)
        else:
            r = z3.Or([z3.And(M(items[idx], i, m), cat(items, owner, idx + 1, m, j)) for m in range(i, j + 1)])
        memo[key] = r
        return r

    def exact(x, k, i, j):
        key = ('ex', id(x), k, i, j)
        if key in memo:
            return memo[key]
        item = x[1]
        if k == 0:
            r = z3.BoolVal(i == j)
        else:
            r = z3.Or([z3.And(M(item, i, m), exact(x, k - 1, m, j)) for m in range(i, j + 1)])
        memo[key] = r
        return r

    def star(x, i, j):
        key = ('st', id(x), i, j)
        if key in memo:
            return memo[key]
        item = x[1]
        if i == j:
            r = z3.BoolVal(True)
        else:
            r = z3.Or([z3.And(M(item, i, m), star(x, m, j)) for m in range(i + 1, j + 1)])
        memo[key] = r
        return r

    def rep(x, i, j):
        _, item, lo, hi, lazy, form = x
        if hi is None:
            return z3.Or([z3.And(exact(x, lo, i, m), star(x, m, j)) for m in range(i, j + 1)])
        return z3.Or([exact(x, k, i, j) for k in range(lo, hi + 1)])

    return M


def word(L, cps, prefix='w'):
    w = [z3.BitVec('%s%d' % (prefix, i), CW) for i in range(L)]
    n = z3.BitVec(prefix + 'n', 8)
    cons = [z3.ULE(n, L)]
    for c in w:
        alts = [z3.And(z3.UGE(c, rr.U_LO), z3.ULE(c, rr.U_HI))]
        alts += [c == p for p in sorted(cps)]
        cons.append(z3.Or(alts))
    return w, n, cons


def model_word(m, w, n):
    k = m.eval(n, model_completion=True).as_long()
    return [m.eval(w[i], model_completion=True).as_long() for i in range(k)]


def regex_vs_auto(tree, auto, L, stats, nul_quirk=False, extra_cps=()):
    """Is there a word (length <= L) on which the documented meaning and the automaton differ?
    Returns None (unsat), a witness word, or 'unknown'."""
    cps = set(rr.code_points(tree)) | set(extra_cps)
    w, n, cons = word(L, cps)
    M = regex_matrix(tree, w, L, nul_quirk)
    ref = z3.Or([z3.And(n == j, M(tree, 0, j)) for j in range(L + 1)])
    impl = run_accept(auto, w, n, L)
    s = new_solver()
    s.add(cons)
    s.add(ref != impl)
    r = check(s, stats)
    if r == z3.unsat:
        return None
    if r == z3.sat:
        return model_word(s.model(), w, n)
    return 'unknown'


# ---- labelled bisimulation step --------------------------------------------------------------------

def bisim(a, b, stats, label_a=None, label_b=None, alphabet_hi=0x10FFFF, skip_symbol_zero=False):
    """Checks that deterministic automata a and b accept the same language (with equal labels)
    by one inductive step over a candidate relation computed by product exploration.
    label_x: function state -> hashable label (default: is-final).
    Returns None if the step is discharged, else a dict describing the counterexample."""
    la = label_a or (lambda q: q in a.final)
    lb = label_b or (lambda q: q in b.final)
    cuts = sorted(a.symbols_partition() | b.symbols_partition())
    reps = [c for c in cuts if c <= alphabet_hi]
    DEAD = None
    pairs = [(a.start, b.start)]
    seen = {pairs[0]}
    i = 0
    while i < len(pairs):
        p, q = pairs[i]
        i += 1
        for c in reps:
            if skip_symbol_zero and c == 0:
                continue
            p2 = a.step(p, c) if p is not DEAD else DEAD
            q2 = b.step(q, c) if q is not DEAD else DEAD
            if p2 is None and q2 is None:
                continue
            if (p2, q2) not in seen:
                seen.add((p2, q2))
                pairs.append((p2, q2))
        if len(pairs) > 20000:
            return {'kind': 'relation too large'}
    # solver step: exists index k, symbol c: labels differ or successor pair not in R.
    # Large relations are discharged range by range (each query mentions only its own pairs on the left).
    bya = {}
    for p, q in pairs:
        bya.setdefault(DEADV if p is None else p, []).append(DEADV if q is None else q)
    k = z3.BitVec('k', 16)
    c = z3.BitVec('c', CW)

    def step_solver(lo, hi):
        P = z3.BitVecVal(DEADV, SW)
        Q = z3.BitVecVal(DEADV, SW)
        lab_bad = z3.BoolVal(False)
        for idx in range(hi - 1, lo - 1, -1):
            p, q = pairs[idx]
            P = z3.If(k == idx, z3.BitVecVal(DEADV if p is None else p, SW), P)
            Q = z3.If(k == idx, z3.BitVecVal(DEADV if q is None else q, SW), Q)
            lp = la(p) if p is not None else False
            lq = lb(q) if q is not None else False
            if lp != lq:
                lab_bad = z3.Or(lab_bad, k == idx)
        P2 = delta_expr(a, P, c)
        Q2 = delta_expr(b, Q, c)
        terms = [z3.And(P2 == DEADV, Q2 == DEADV)]
        for p, qs in bya.items():
            terms.append(z3.And(P2 == p, z3.Or([Q2 == q for q in qs])))
        inR = z3.Or(terms)
        s = new_solver()
        s.add(z3.UGE(k, lo), z3.ULT(k, hi))
        s.add(z3.ULE(c, alphabet_hi))
        if skip_symbol_zero:
            s.add(c != 0)
        s.add(z3.Or(lab_bad, z3.Not(inR)))
        return s

    def discharge(lo, hi):
        """unsat / (sat, solver) / unknown over pairs[lo:hi], splitting on a timeout"""
        s = step_solver(lo, hi)
        r = check(s, stats)
        if r == z3.sat:
            return r, s
        if r == z3.unsat or hi - lo <= 1:
            return r, None
        mid = (lo + hi) // 2
        r1, s1 = discharge(lo, mid)
        if r1 == z3.sat:
            return r1, s1
        r2, s2 = discharge(mid, hi)
        if r2 == z3.sat:
            return r2, s2
        return (z3.unsat if r1 == z3.unsat and r2 == z3.unsat else z3.unknown), None

    CH = 512
    r, s = z3.unsat, None
    for lo in range(0, len(pairs), CH):
        rc, sc = discharge(lo, min(lo + CH, len(pairs)))
        if rc == z3.sat:
            r, s = rc, sc
            break
        if rc != z3.unsat:
            r = rc
    if r == z3.unsat:
        return None
    if r != z3.sat:
        return {'kind': 'unknown'}
    m = s.model()
    idx = m.eval(k, model_completion=True).as_long()
    cv = m.eval(c, model_completion=True).as_long()
    p, q = pairs[idx]
    # shortest word reaching the pair (BFS over reps), for replay
    path = shortest_path(a, b, (p, q), reps, skip_symbol_zero)
    lp = la(p) if p is not None else False
    lq = lb(q) if q is not None else False
    if lp != lq:
        return {'kind': 'label', 'pair': (p, q), 'word': path, 'labels': (str(lp), str(lq))}
    return {'kind': 'step', 'pair': (p, q), 'symbol': cv, 'word': path + [cv]}


def shortest_path(a, b, target, reps, skip_zero):
    from collections import deque
    start = (a.start, b.start)
    prev = {start: None}
    dq = deque([start])
    while dq:
        cur = dq.popleft()
        if cur == target:
            break
        p, q = cur
        for c in reps:
            if skip_zero and c == 0:
                continue
            p2 = a.step(p, c) if p is not None else None
            q2 = b.step(q, c) if q is not None else None
            if p2 is None and q2 is None:
                continue
            nxt = (p2, q2)
            if nxt not in prev:
                prev[nxt] = (cur, c)
                dq.append(nxt)
    out = []
    cur = target
    while prev.get(cur) is not None:
        cur, c = prev[cur]
        out.append(c)
    return out[::-1]
