"""C12: the recorded precedence levels are exactly the directives, in order, with their handles."""
from common import *
import lr


def run(tier, rep):
    thorough = tier == 'thorough'
    K = 7 if thorough else 6
    with Scratch() as sc:
        sfs, extra = lr.spec_files(sc, specDirK=K)
        res = run_gosym(lr.spec_cfg(sfs, extra, 'harnessC12Levels', tier, opaque_pkgs=['math/rand'], max_steps=80000000), sc, 'c12', timeout=6 * 3600)
        merge_gosym(rep, res, 'spec.Parse (real actions 12-19, AddPrecedence) on `grammar g; TK = "k"; start = "s" TK;` followed by every sequence of <= %d tokens: recorded levels vs the directives read off the reference tree' % K)
        for v in (res.get('violations') or [])[:6]:
            outcome, out = native_replay(lr.SPEC_REL, 'spec', sfs, v['harness'], v['inputs'], sc, extra_overlay=extra)
            rep.coverage['traces_validated_against_impl'] = rep.coverage.get('traces_validated_against_impl', 0) + 1
            what = '%s: %s [%s] inputs=%s native=%s' % (v['harness'], v['msg'], v['pos'][:120], [(i['name'], i['value']) for i in v['inputs'] or []][:12], outcome)
            if outcome.startswith('assert-failed') or outcome.startswith('panic'):
                rep.violation(what, {'harness': v['harness'], 'pkg': lr.SPEC_REL, 'inputs': v['inputs'], 'msg': v['msg'], 'native': outcome})
            else:
                rep.inconc('counterexample did not reproduce natively: ' + what)
        rep.assumptions += [
            'token kinds of the appended part are symbolic; its lexemes are chosen so that references resolve (IDENT = start, TOKEN = TK, STRING = a fresh literal per position)',
            'the directives of the source are read off the reference derivation tree (reference parser of zz_verif_lr.go); only accepted specifications are judged',
            'a rule handle must contribute between one production and one per alternative, all with the rule\'s head and all productions of the derived grammar; exactly one per distinct alternative when every alternative is a plain sequence of symbols',
            'bound: %d appended tokens (rule handles need at least five)' % K,
        ]
