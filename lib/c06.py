"""C06 (partial): the LALR(1) table emerge builds for a user grammar parses exactly its language,
per the directives.

Per corpus grammar the real Spec.LALRParsingTable is run (dump driver).  The solver then decides,
over one symbolic sentence up to length L:
  A. accepted grammar without directives: the standard shift-reduce run over the dumped table
     (an unrolled bit-vector machine) accepts w  <=>  w is a sentence (stratified CYK);
  B. operator grammar with directives: the run accepts w <=> w has a parse that respects the declared
     levels and associativities (precedence-aware CYK), and no accepted run contains a reduction
     whose operands violate them;
  C. verdicts: an accepted grammar without directives must not have a sentence with two parse trees
     (solver search for an ambiguity witness); a rejected grammar must have one, or belong to a family
     whose class is known from the literature.
NOT decided: that an arbitrary generated LALR(1) grammar is never rejected (LALR(1)-ness is not an
SMT query): a rejected generated grammar without ambiguity witness is counted as undecided."""
import itertools
import multiprocessing
import os
import random

import z3

from common import *
import tv
import tvsmt
from c01 import And, Or, tobool, CFG

EOF_NAME = ''


# ---- corpus -----------------------------------------------------------------------------------

def g(text, cls, directives=None, ops=None, family='textbook'):
    return {'text': 'grammar g;\n' + text, 'class': cls, 'ops': ops, 'family': family, 'directives': directives}


def op_grammar(ops, levels):
    """E = E op E | ... | "(" E ")" | "n";   levels: list of (assoc, [ops]) earlier = tighter."""
    lines = []
    for assoc, os_ in levels:
        lines.append('@%s %s' % (assoc, ' '.join('"%s"' % o for o in os_)))
    alts = ['start "%s" start' % o for o in ops] + ['"(" start ")"', '"n"']
    lines.append('start = ' + ' | '.join(alts) + ';')
    return '\n'.join(lines) + '\n'


def weak_orderings(items):
    if not items:
        yield []
        return
    for k in range(1, len(items) + 1):
        for first in itertools.combinations(items, k):
            rest = [x for x in items if x not in first]
            for tail in weak_orderings(rest):
                yield [list(first)] + tail


def corpus(tier, seed):
    thorough = tier == 'thorough'
    out = []
    out.append(g('start = start "+" t | t;\nt = t "*" f | f;\nf = "(" start ")" | "n";\n', 'lalr', family='SLR expression grammar'))
    out.append(g('start = l "=" r | r;\nl = "*" r | "n";\nr = l;\n', 'lalr', family='LALR(1) but not SLR(1)'))
    out.append(g('start = "a" x "d" | "b" y "d" | "a" y "e" | "b" x "e";\nx = "c";\ny = "c";\n', 'not-lalr-unambiguous', family='LR(1) but not LALR(1)'))
    out.append(g('start = "i" start | "i" start "e" start | "x";\n', 'ambiguous', family='dangling else'))
    out.append(g('start = start "+" start | "n";\n', 'ambiguous', family='E -> E+E without directive'))
    out.append(g('start = start start | "a";\n', 'ambiguous', family='S -> S S'))
    out.append(g('start = "a" start "b" | ;\n', 'lalr', family='a^n b^n'))
    out.append(g('start = "a" start "a" | "b" start "b" | "c";\n', 'lalr', family='marked palindromes'))
    out.append(g('start = x "a" | y "b";\nx = "c";\ny = "c";\n', 'lalr', family='reduce decided by lookahead'))
    out.append(g('start = x | y;\nx = "a" "b";\ny = "a" "b";\n', 'ambiguous', family='reduce/reduce ambiguity'))
    out.append(g('start = { "a" } "b" | [ "c" ] "d";\n', 'lalr', family='extended operators'))
    out.append(g('start = {{ "a" | "b" "c" }} [ "d" ];\n', 'lalr', family='extended operators'))
    ops3 = ['+', '*', '^']
    assocs = ['left', 'right', 'none']
    for nops in (1, 2, 3):
        ops = ops3[:nops]
        n = 0
        for wo in weak_orderings(ops):
            for asg in itertools.product(assocs, repeat=len(wo)):
                levels = list(zip(asg, wo))
                n += 1
                if nops == 3 and not thorough and n % 6 != 1:
                    continue
                out.append({'text': 'grammar g;\n' + op_grammar(ops, levels), 'class': 'operator', 'ops': ops, 'levels': levels, 'family': 'operator grammar, %d operators' % nops, 'directives': True})
    # a level that names only an operator no rule uses, in every position among three real levels;
    for pos in range(4):
        for asg in (('left', 'left', 'left'), ('left', 'right', 'left'), ('right', 'left', 'right')):
            real = [(asg[0], ['*']), (asg[1], ['+']), (asg[2], ['<'])]
            lines = real[:pos] + [('left', ['%'])] + real[pos:]
            text = 'grammar g;\n' + op_grammar(['*', '+', '<'], lines)
            out.append({'text': text, 'class': 'operator', 'ops': ['*', '+', '<'], 'levels': real, 'family': 'operator grammar with an unused level', 'directives': True})
    # terminals and the productions that use them on the same line (a production handle alone gives the
    # terminal no level, so such a grammar is legitimately rejected and is not in the corpus)
    for asg in itertools.product(['left', 'right'], repeat=2):
        lines = ['@%s "*" <start = start "*" start>' % asg[0], '@%s "+" <start = start "+" start>' % asg[1],
                 'start = start "+" start | start "*" start | "(" start ")" | "n";']
        out.append({'text': 'grammar g;\n' + '\n'.join(lines) + '\n', 'class': 'operator', 'ops': ['+', '*'], 'levels': [(asg[0], ['*']), (asg[1], ['+'])],
                    'family': 'operator grammar with terminal and rule handles', 'directives': True})
    # unambiguous LALR(1) grammars with directives: the table has nothing to resolve, so the directives
    # must change nothing (a table built with weaker lookahead sets would "resolve" its spurious conflicts)
    base = [
        ('start = l "=" r | r;\nl = "*" r | "n";\nr = l;\n', ['*', '=']),
        ('start = "*" u "=" e | e;\ne = e "+" u | u;\nu = "*" u | "n";\n', ['*', '=', '+']),
        ('start = s;\ns = "*" u "=" e | e;\ne = e "+" e | e "*" e | u;\nu = "*" u | "n" | "(" a ")";\na = a "=" a | e;\n', ['*', '+', '=']),
        ('start = x "a" | y "b";\nx = "c" x | "c";\ny = "c" y | "c";\n', ['a', 'b', 'c']),
        ('start = start "+" t | t;\nt = t "*" f | f;\nf = "(" start ")" | "n";\n', ['+', '*']),
    ]
    for text, ts in base:
        k = 0
        for order in itertools.permutations(ts):
            for asg in itertools.product(['left', 'right'], repeat=len(ts)):
                k += 1
                if not thorough and len(ts) == 3 and k % 4 != 1:
                    continue
                lines = ['@%s "%s";' % (a, t) for a, t in zip(asg, order)]
                cls = 'lalr'
                out.append(g('\n'.join(lines) + '\n' + text, cls, directives=True, family='unambiguous LALR(1) grammar with directives'))
    # one line for all terminals
    for text, ts in base:
        for a in ('left', 'right'):
            out.append(g('@%s %s;\n' % (a, ' '.join('"%s"' % t for t in ts)) + text, 'lalr', directives=True, family='unambiguous LALR(1) grammar with directives'))
    # dangling else settled by directives in favour of the shift ("else" above "if", or both on one right-associative
    # level): the else goes to the nearest if and no sentence is lost, so the table must accept exactly L(G).
    # The "else" level names no terminal that begins a production (seed C06_5 demoted such levels).
    for lines in ('@right "e";\n@right "i";', '@left "e";\n@left "i";', '@right "e";\n@left "i";', '@right "e" "i";', '@right "i" "e";'):
        for body in ('start = "i" start | "i" start "e" start | "x";\n', 'start = s;\ns = "i" s | "i" s "e" s | "x" | "(" s ")";\n'):
            out.append(g(lines + '\n' + body, 'lalr', directives=True, family='dangling else settled by directives'))
    # partially declared: one operator left without directive -> unresolved conflict expected
    out.append({'text': 'grammar g;\n' + op_grammar(['+', '*'], [('left', ['*'])]), 'class': 'ambiguous', 'ops': None, 'family': 'operator grammar with a missing directive', 'directives': True})
    rnd = random.Random(seed)
    terms = ['a', 'b', 'c']
    nts = ['start', 'x', 'y']
    for _ in range(400 if thorough else 60):
        rules = []
        k = rnd.randint(1, 3)
        for A in nts[:k]:
            alts = []
            for _ in range(rnd.randint(1, 3)):
                body = []
                for _ in range(rnd.randint(1, 3)):
                    if rnd.random() < 0.55:
                        body.append('"%s"' % rnd.choice(terms))
                    else:
                        body.append(rnd.choice(nts[:k]))
                alts.append(' '.join(body))
            rules.append('%s = %s;' % (A, ' | '.join(alts)))
        out.append(g('\n'.join(rules) + '\n', 'unknown', family='random'))
    return out


# ---- the standard shift-reduce algorithm as an unrolled bit-vector machine ----------------------------

W = 8


def lr_machine(table, code, w, n, L, ops_level=None):
    """Returns (accepted, halted, overflow, shape_bad).
    table: dumped {'actions','gotos','prods'}; code: terminal -> int; EOF code = len(code)."""
    eofc = len(code)
    acts = table.get('actions') or []
    prods = table.get('prods') or []
    nts = sorted({p['head'] for p in prods})
    ntc = {A: i for i, A in enumerate(nts)}
    plen = [len(p['body']) for p in prods]
    maxlen = max(plen) if plen else 0
    D = 2 * L + 4
    S = 6 * (L + 1) + 6
    sp = z3.BitVecVal(0, W)
    stack = [z3.BitVecVal(0, W)] + [z3.BitVecVal(0, W) for _ in range(D - 1)]
    attr = [z3.BitVecVal(0, W) for _ in range(D)]  # top operator level of the subtree in this slot (0 = atom)
    ip = z3.BitVecVal(0, W)
    running = z3.BoolVal(True)
    accepted = z3.BoolVal(False)
    overflow = z3.BoolVal(False)
    shape_bad = z3.BoolVal(False)

    def tok(p):
        e = z3.BitVecVal(eofc, W)
        for i in range(L - 1, -1, -1):
            e = z3.If(z3.And(p == i, z3.ULT(z3.BitVecVal(i, W), n)), w[i], e)
        return e

    def read(vec, idx):
        e = vec[-1]
        for j in range(len(vec) - 2, -1, -1):
            e = z3.If(idx == j, vec[j], e)
        return e

    # action table as (kind, arg): kind 0 none, 1 shift, 2 reduce, 3 accept
    kinds = {'SHIFT': 1, 'REDUCE': 2, 'ACCEPT': 3}
    bystate = {}
    for a in acts:
        c = eofc if a['a'] == EOF_NAME else code.get(a['a'])
        if c is None:
            continue
        bystate.setdefault(a['s'], []).append((c, kinds[a['type']], a['arg']))
    gotos = {}
    for gt in table.get('gotos') or []:
        gotos.setdefault(gt['s'], []).append((ntc.get(gt['A'], 255), gt['next']))

    def action(s, a):
        kind = z3.BitVecVal(0, 2)
        arg = z3.BitVecVal(0, W)
        for st, lst in bystate.items():
            k2 = z3.BitVecVal(0, 2)
            a2 = z3.BitVecVal(0, W)
            for c, kd, ar in lst:
                k2 = z3.If(a == c, z3.BitVecVal(kd, 2), k2)
                a2 = z3.If(a == c, z3.BitVecVal(ar, W), a2)
            kind = z3.If(s == st, k2, kind)
            arg = z3.If(s == st, a2, arg)
        return kind, arg

    def goto(s, A):
        e = z3.BitVecVal(255, W)
        for st, lst in gotos.items():
            e2 = z3.BitVecVal(255, W)
            for c, nx in lst:
                e2 = z3.If(A == c, z3.BitVecVal(nx, W), e2)
            e = z3.If(s == st, e2, e)
        return e

    for step in range(S):
        s = read(stack, sp)
        a = tok(ip)
        kind, arg = action(s, a)
        is_shift = z3.And(running, kind == 1)
        is_red = z3.And(running, kind == 2)
        is_acc = z3.And(running, kind == 3)
        is_err = z3.And(running, kind == 0)
        # reduce: production arg
        ln = z3.BitVecVal(0, W)
        hd = z3.BitVecVal(255, W)
        for pi, p in enumerate(prods):
            ln = z3.If(arg == pi, z3.BitVecVal(plen[pi], W), ln)
            hd = z3.If(arg == pi, z3.BitVecVal(ntc[p['head']], W), hd)
        sp2 = sp - ln
        t = read(stack, sp2)
        gnext = goto(t, hd)
        wr_idx = z3.If(is_shift, sp + 1, sp2 + 1)
        wr_val = z3.If(is_shift, arg, gnext)
        do_wr = z3.Or(is_shift, is_red)
        overflow = z3.Or(overflow, z3.And(do_wr, z3.UGE(wr_idx, D)), z3.And(is_red, z3.UGT(ln, sp)), z3.And(is_red, gnext == 255))
        # attributes for operator grammars: slot attr = level of the operator at the root of the subtree
        new_attr_val = z3.BitVecVal(0, W)
        if ops_level is not None:
            for pi, p in enumerate(prods):
                b = p['body']
                if len(b) == 3 and (not b[0]['t']) and b[1]['t'] and (not b[2]['t']) and b[1]['name'] in ops_level:
                    lvl, assoc = ops_level[b[1]['name']]
                    la = read(attr, sp2 + 1)
                    ra = read(attr, sp2 + 3)
                    # smaller level number = binds tighter; 0 = atom
                    left_ok = z3.Or(la == 0, z3.ULT(la, lvl), z3.And(la == lvl, z3.BoolVal(assoc == 'left')))
                    right_ok = z3.Or(ra == 0, z3.ULT(ra, lvl), z3.And(ra == lvl, z3.BoolVal(assoc == 'right')))
                    shape_bad = z3.Or(shape_bad, z3.And(is_red, arg == pi, z3.Not(z3.And(left_ok, right_ok))))
                    new_attr_val = z3.If(arg == pi, z3.BitVecVal(lvl, W), new_attr_val)
            attr = [z3.If(z3.And(do_wr, wr_idx == j), z3.If(is_shift, z3.BitVecVal(0, W), new_attr_val), attr[j]) for j in range(D)]
        stack = [z3.If(z3.And(do_wr, wr_idx == j), wr_val, stack[j]) for j in range(D)]
        sp = z3.If(do_wr, wr_idx, sp)
        ip = z3.If(is_shift, ip + 1, ip)
        accepted = z3.Or(accepted, is_acc)
        running = z3.And(running, z3.Not(is_acc), z3.Not(is_err))
    return accepted, z3.Not(running), overflow, shape_bad


# ---- references ------------------------------------------------------------------------------------------

def prec_cyk(ops_level, w, code, L):
    """Operator grammar E -> E op E | ( E ) | n with declared levels: P[i][j][t] = w[i:j] has a parse whose
    root operator has level t (0 = atom) and which respects levels and associativity everywhere."""
    levels = sorted({l for l, _ in ops_level.values()})
    ts = [0] + levels
    P = {}
    for length in range(1, L + 1):
        for i in range(0, L - length + 1):
            j = i + length
            for t in ts:
                if t == 0:
                    alts = []
                    if length == 1:
                        alts.append(w[i] == code['n'])
                    if length >= 3:
                        inner = Or(P[(i + 1, j - 1, t2)] for t2 in ts)
                        alts.append(And(w[i] == code['('], w[j - 1] == code[')'], inner))
                    P[(i, j, 0)] = Or(alts)
                else:
                    alts = []
                    for op, (lvl, assoc) in ops_level.items():
                        if lvl != t:
                            continue
                        for m in range(i + 1, j - 1):
                            lefts = [P[(i, m, tl)] for tl in ts if tl == 0 or tl < lvl or (tl == lvl and assoc == 'left')]
                            rights = [P[(m + 1, j, tr)] for tr in ts if tr == 0 or tr < lvl or (tr == lvl and assoc == 'right')]
                            alts.append(And(w[m] == code[op], Or(lefts), Or(rights)))
                    P[(i, j, t)] = Or(alts)
    return P, ts


def two_trees(cfg, w, code, L):
    """T1[A,i,j]: at least one parse tree; T2[A,i,j]: at least two.  Requires no epsilon productions and
    acyclic unit productions (checked by the caller)."""
    # order non-terminals so that unit dependencies go backwards
    unit = {A: set() for A in cfg.nts}
    for h, b in cfg.prods:
        if len(b) == 1 and not b[0][0]:
            unit[h].add(b[0][1])
    order, seen = [], set()

    def visit(A, stack=()):
        if A in seen:
            return True
        if A in stack:
            return False
        for B in unit[A]:
            if not visit(B, stack + (A,)):
                return False
        seen.add(A)
        order.append(A)
        return True
    for A in cfg.nts:
        if not visit(A):
            return None
    byhead = {}
    for h, b in cfg.prods:
        byhead.setdefault(h, []).append(b)
    T1, T2 = {}, {}
    for length in range(1, L + 1):
        for i in range(0, L - length + 1):
            j = i + length
            for A in order:
                ways = []   # (one, two) per (production, split)

                def expand(body, idx, a):
                    # returns list of (one, two) for the ways body[idx:] derives w[a:j]
                    if idx == len(body):
                        return [(True, False)] if a == j else []
                    t, nme = body[idx]
                    if t:
                        if a >= j or nme not in code:
                            return []
                        c = w[a] == code[nme]
                        return [(And(c, o), And(c, tw)) for o, tw in expand(body, idx + 1, a + 1)]
                    out = []
                    last = idx == len(body) - 1
                    for m in ([j] if last else range(a + 1, j + 1)):
                        if m == a:
                            continue
                        o1, t1 = T1.get((nme, a, m), False), T2.get((nme, a, m), False)
                        if o1 is False:
                            continue
                        for o, tw in expand(body, idx + 1, m):
                            out.append((And(o1, o), Or([And(t1, o), And(o1, tw)])))
                    return out
                for b in byhead.get(A, []):
                    ways += expand(b, 0, i)
                T1[(A, i, j)] = Or(o for o, _ in ways)
                pair = []
                for x in range(len(ways)):
                    for y in range(x + 1, len(ways)):
                        pair.append(And(ways[x][0], ways[y][0]))
                T2[(A, i, j)] = Or([tw for _, tw in ways] + pair)
    return T1, T2


# ---- per grammar -------------------------------------------------------------------------------------------

def check_one(args):
    idx, item, out, L = args
    st = tvsmt.Stats()
    res = {'idx': idx, 'text': item['text'], 'family': item['family'], 'problems': [], 'undecided': None, 'verdict': None}
    if out.get('panic'):
        res['problems'].append({'kind': 'panic', 'what': 'panic: ' + out['panic']})
        res['stats'] = st.__dict__
        return res
    if out.get('err') or not out.get('spec'):
        res['undecided'] = 'specification rejected before table construction: %s' % (out.get('err') or '')[:150]
        res['stats'] = st.__dict__
        return res
    sp = out['spec']
    prods = [(p['head'], [(s['t'], s['name']) for s in p['body']]) for p in (sp.get('prods') or [])]
    terms = sorted(sp.get('terminals') or [])
    code = {t: i for i, t in enumerate(terms)}
    w = [z3.BitVec('s%d' % i, W) for i in range(L)]
    n = z3.BitVec('n', W)
    cons = [z3.ULE(n, L)] + [z3.ULT(x, max(1, len(terms))) for x in w]
    cfg = CFG(prods)
    rejected = 'lalr' in (out.get('errs') or {})
    res['verdict'] = 'rejected' if rejected else 'accepted'
    has_eps = any(len(b) == 0 for _, b in prods)

    def sentence(m):
        k = m.eval(n, model_completion=True).as_long()
        return [terms[m.eval(w[i], model_completion=True).as_long()] for i in range(k)]

    def ambiguity():
        if has_eps:
            return 'n/a'
        tt = two_trees(cfg, w, code, L)
        if tt is None:
            return 'n/a'
        T1, T2 = tt
        s = tvsmt.new_solver()
        s.add(cons)
        s.add(z3.Or([z3.And(n == j, tobool(T2.get(('start', 0, j), False))) for j in range(1, L + 1)]))
        r = tvsmt.check(s, st)
        if r == z3.sat:
            return sentence(s.model())
        return None if r == z3.unsat else 'unknown'

    if rejected:
        cls = item['class']
        if cls == 'lalr':
            res['problems'].append({'kind': 'rejected-lalr', 'what': 'a grammar known to be LALR(1) (%s) is rejected: %s' % (item['family'], out['errs']['lalr'][:200])})
        elif cls in ('ambiguous', 'not-lalr-unambiguous'):
            pass  # the literature says: conflict
        elif cls == 'operator' and any(a == 'none' for a, _ in item['levels']):
            pass  # a non-associative level leaves equal-level conflicts unresolved: rejecting is what the statement prescribes
        elif cls == 'operator':
            res['problems'].append({'kind': 'rejected-operator', 'what': 'an operator grammar whose every operator has a directive is rejected: %s' % out['errs']['lalr'][:200]})
        else:
            a = ambiguity()
            if a in (None, 'n/a', 'unknown'):
                res['undecided'] = 'rejected, no ambiguity witness up to %d (LALR(1)-ness of a generated grammar is not decided)' % L
        res['stats'] = st.__dict__
        return res
    table = out.get('table')
    if not table:
        res['problems'].append({'kind': 'no-table', 'what': 'neither a table nor a conflict report'})
        res['stats'] = st.__dict__
        return res
    if item['class'] in ('ambiguous', 'not-lalr-unambiguous'):
        res['problems'].append({'kind': 'silently-resolved', 'what': 'a grammar with an unresolved LALR(1) conflict (%s) is accepted instead of being rejected with a conflict report' % item['family']})
    ops_level = None
    if item['class'] == 'operator':
        ops_level = {}
        for li, (assoc, os_) in enumerate(item['levels']):
            for o in os_:
                ops_level[o] = (li + 1, assoc)
    accepted, halted, overflow, shape_bad = lr_machine(table, code, w, n, L, ops_level)
    # the machine must have halted within its step bound without overflowing its stack vector
    s = tvsmt.new_solver()
    s.add(cons)
    s.add(z3.Or(z3.Not(halted), overflow))
    r = tvsmt.check(s, st)
    if r != z3.unsat:
        res['undecided'] = 'shift-reduce machine did not halt within its unrolling (or solver unknown)'
        res['stats'] = st.__dict__
        return res
    if ops_level is not None:
        P, ts = prec_cyk(ops_level, w, code, L)
        ref = z3.Or([z3.And(n == j, tobool(Or(P[(0, j, t)] for t in ts))) for j in range(1, L + 1)])
    else:
        D = cfg.matrices(w, code, L)
        ref = z3.Or([z3.And(n == j, tobool(D.get(('start', 0, j), False))) for j in range(0, L + 1)])
    s = tvsmt.new_solver()
    s.add(cons)
    s.add(accepted != ref)
    r = tvsmt.check(s, st)
    if r == z3.sat:
        m = s.model()
        sent = sentence(m)
        res['problems'].append({'kind': 'language', 'sentence': sent, 'table_accepts': z3.is_true(m.eval(accepted, model_completion=True)),
                                'what': 'the table %s the sentence %r although it is %s' % ('accepts' if z3.is_true(m.eval(accepted, model_completion=True)) else 'rejects', ' '.join(sent),
                                                                                    ('not ' if z3.is_true(m.eval(accepted, model_completion=True)) else '') + ('a sentence with a parse respecting the directives' if ops_level else 'a sentence of the grammar'))})
    elif r != z3.unsat:
        res['undecided'] = 'solver unknown on the language query'
    if ops_level is not None:
        s = tvsmt.new_solver()
        s.add(cons)
        s.add(accepted, shape_bad)
        r = tvsmt.check(s, st)
        if r == z3.sat:
            sent = sentence(s.model())
            res['problems'].append({'kind': 'shape', 'sentence': sent, 'what': 'parsing %r the table performs a reduction whose operands violate the declared precedence/associativity' % ' '.join(sent)})
    elif item['class'] in ('lalr', 'unknown') and not item.get('directives'):
        a = ambiguity()
        if isinstance(a, list):
            res['problems'].append({'kind': 'silently-resolved', 'sentence': a, 'what': 'the grammar is ambiguous (%r has two parse trees) but is accepted without a conflict report' % ' '.join(a)})
    res['stats'] = st.__dict__
    return res


def lr_replay(table, sent):
    """Concrete shift-reduce run over the dumped table (replay of a witness)."""
    acts = {(a['s'], a['a']): (a['type'], a['arg']) for a in table.get('actions') or []}
    gotos = {(x['s'], x['A']): x['next'] for x in table.get('gotos') or []}
    stack = [0]
    toks = list(sent) + [EOF_NAME]
    i = 0
    for _ in range(10000):
        act = acts.get((stack[-1], toks[i]))
        if act is None:
            return False
        if act[0] == 'SHIFT':
            stack.append(act[1])
            i += 1
        elif act[0] == 'REDUCE':
            p = table['prods'][act[1]]
            if p['body']:
                del stack[-len(p['body']):]
            nx = gotos.get((stack[-1], p['head']))
            if nx is None:
                return False
            stack.append(nx)
        else:
            return True
    return False


def run(tier, rep):
    thorough = tier == 'thorough'
    L = 8 if thorough else 6
    corp = corpus(tier, rep.seed)
    with Scratch() as sc:
        outs = tv.run_jobs([{'op': 'lalr', 'text': c['text']} for c in corp], sc, 'c06')
        work = [(i, c, outs[i], L) for i, c in enumerate(corp) if outs[i] is not None]
        if len(work) != len(corp):
            rep.inconc('dump driver lost %d grammars' % (len(corp) - len(work)))
        with multiprocessing.Pool(min(10, os.cpu_count() or 1)) as pool:
            results = pool.map(check_one, work, chunksize=2)
        total = tvsmt.Stats()
        fam, undec, samples = {}, [], []
        shown = {}
        for r in results:
            s = tvsmt.Stats()
            s.__dict__.update(r['stats'])
            total.add(s)
            fam[r['family']] = fam.get(r['family'], 0) + 1
            if r['undecided']:
                undec.append((r['family'], r['undecided']))
            if len(samples) < 6 and r['family'] != 'random':
                samples.append({'grammar': r['text'], 'emerge': r['verdict'], 'verdict': 'differs' if r['problems'] else ('undecided: ' + r['undecided'] if r['undecided'] else 'as documented up to L')})
            for p in r['problems']:
                key = p['kind']
                shown[key] = shown.get(key, 0) + 1
                if shown[key] > 3:
                    continue
                rep.coverage['disagreements_checked'] = rep.coverage.get('disagreements_checked', 0) + 1
                if p['kind'] == 'language':
                    tab = outs[r['idx']].get('table')
                    real = lr_replay(tab, p['sentence'])
                    if real != p['table_accepts']:
                        rep.inconc('witness did not replay on the dumped table: %r' % (p,))
                        continue
                rep.violation('%s; grammar:\n%s' % (p['what'], r['text']), {'grammar': r['text'], 'problem': p})
        rep.coverage.update({
            'programs': len(work), 'samples': samples, 'families': fam, 'undecided': len(undec), 'undecided_examples': undec[:5],
            'queries': total.queries, 'queries_sat': total.sat, 'queries_unsat': total.unsat, 'queries_unknown': total.unknown, 'solver_seconds': round(total.seconds, 2),
            'sentence_length_bound': L,
            'functions_run': ['spec.Parse', '(*Spec).LALRParsingTable (lookahead.BuildParsingTable with the recorded precedence levels)'],
        })
        rep.coverage.setdefault('disagreements_checked', 0)
        rep.assumptions += [
            'the emitted parser does not exist yet (parser.go.tmpl is a stub): "the standard shift-reduce algorithm" is the unrolled bit-vector machine of lib/c06.py over the dumped ACTION/GOTO table (trusted; its halting within the unrolling is itself a discharged query)',
            'enumerated dimension: textbook families with literature classes, operator grammars with every level/associativity table over <= 3 operators (sampled 1 in 6 for 3 operators in the quick tier), seeded random grammars',
            'solver dimension: all terminal strings up to length %d' % L,
            'NOT decided: "an LALR(1) grammar is never rejected" for generated grammars (only literature-labelled families and operator grammars are checked in that direction)',
        ]
