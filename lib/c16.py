"""C16 (partial, operating system modelled): success iff the package was fully written; flags honoured;
nothing pre-existing touched."""
import os

from common import *

GEN_REL = 'internal/generate/golang'
CMD_REL = 'internal/command'
MAIN_REL = 'cmd/emerge'
ALGO = 'github.com/moorara/algo/...'


def hfiles(rel):
    d = os.path.join(HARNESS, rel)
    return [os.path.join(d, f) for f in sorted(os.listdir(d)) if f.startswith('zz_verif_') and f.endswith('.go') and not f.endswith('_test.go')]


G = MODULE + '/' + GEN_REL
C = MODULE + '/' + CMD_REL
M = MODULE + '/' + MAIN_REL

HARNESSES = [
    ('generate', GEN_REL, G, 'golang', 'harnessC16Generate', {
        'os.Stat': G + '.stubStat', 'os.IsNotExist': G + '.stubIsNotExist', 'os.Mkdir': G + '.stubMkdir', 'os.OpenFile': G + '.stubOpenFile',
        'os.Remove': G + '.stubForbidden1', 'os.RemoveAll': G + '.stubForbidden1', 'os.Rename': G + '.stubForbidden2', 'os.Truncate': G + '.stubForbidden1',
        'os.Create': G + '.stubCreate', 'os.WriteFile': G + '.stubWriteFile', 'os.MkdirAll': G + '.stubMkdirAll',
        G + '.isIDValid': G + '.stubIsIDValid', '(*text/template.Template).Execute': G + '.stubExecute',
    }, ['text/template', 'embed', 'regexp'], 'Generate/prepare/renderTemplate with os.Stat/Mkdir/OpenFile, isIDValid and template.Execute as nondeterministic stubs; 3 -out values x 3 names'),
    ('names', GEN_REL, G, 'golang', 'harnessC16Names', {'(*regexp.Regexp).MatchString': G + '.stubMatchIdent'},
     ['text/template', 'embed', 'regexp'], 'isIDValid on the 25 keywords and 44 predeclared identifiers of the Go specification, 17 usable and 10 unusable names (malformed ones and the blank identifier) (the regular expression replaced by its ASCII meaning): accepted iff usable'),
    ('run', CMD_REL, C, 'command', 'harnessC16Run', {
        'os.Open': C + '.stubOpen', '(*os.File).Close': C + '.stubClose', C + '.getPlant': C + '.stubRune', C + '.getAnimal': C + '.stubRune', C + '.getFruit': C + '.stubRune',
    }, [], 'Command.Run with os.Open, Parse and Generate as nondeterministic stubs; 4 argument lists x -out x -name x -debug'),
    ('main', MAIN_REL, M, 'main', 'harnessC16Main', {
        'os.Exit': M + '.stubExit', 'github.com/gardenbed/charm/ui.New': M + '.stubUINew', 'os.Getwd': M + '.stubGetwd',
        'github.com/gardenbed/charm/flagit.Register': M + '.stubRegister', '(*flag.FlagSet).Parse': M + '.stubFlagParse', '(*flag.FlagSet).Args': M + '.stubFlagArgs',
        '(*' + C + '.Command).Run': M + '.stubRun', '(*' + C + '.Command).PrintHelp': M + '.stubPrintHelp',
    }, [], 'main.main with os.Exit/Getwd, ui.New, flagit.Register, FlagSet.Parse, Command.Run and PrintHelp as nondeterministic stubs'),
]


def cfg(rel, pkg, entry, redirect, opaque_pkgs, tier):
    return {'patterns': ['./' + rel], 'pkg': pkg, 'overlay': overlay_map(rel, hfiles(rel)), 'entry': entry, 'redirect': redirect,
            'init_pkgs': [MODULE + '/...', ALGO, 'io', 'unicode/utf8', 'flag'],
            'opaque_pkgs': opaque_pkgs + ['regexp', 'math/rand'], 'max_steps': 20000000, 'max_violations': 20, 'cross': ['cvc5', 'z3'] if tier == 'thorough' else []}


def run_part(rep, sc, tier, only=None):
    for name, rel, pkg, pkgname, entry, redirect, opq, label in HARNESSES:
        if only and name not in only:
            continue
        res = run_gosym(cfg(rel, pkg, entry, redirect, opq, tier), sc, name)
        merge_gosym(rep, res, label)
        seen = {}
        for v in res.get('violations') or []:
            key = v['msg'][:70]
            seen[key] = seen.get(key, 0) + 1
            if seen[key] > 1:
                continue
            # replay: the stubs exist only under the engine (native code calls the real os), so the counterexample is
            # reported with its decision vector; the CLI-level ones are replayed by running the real binary (see replay())
            rep.violation('%s: %s inputs=%s' % (entry, v['msg'], [(i['name'], i['value']) for i in v['inputs'] or []][:12]),
                          {'harness': entry, 'pkg': rel, 'inputs': v['inputs'], 'msg': v['msg'], 'note': 'environment stubs are engine-side redirects; inputs are the stub decisions in call order'})


def run(tier, rep):
    with Scratch() as sc:
        run_part(rep, sc, tier)
        rep.assumptions += [
            'the operating system is a model: os.Stat/Mkdir/OpenFile/Open/Exit/Getwd, isIDValid (a regexp and a word list), template.Execute, flag parsing, spec.Parse and golang.Generate (in the Run and main harnesses) return arbitrary results within their documented contracts',
            'NOT decided: what a real file system does (symlinks, partial writes, permissions), completeness of file contents; isIDValid is decided on the reserved words of the Go specification and a few usable/malformed names with its regular expression replaced by the ASCII meaning of the identifier shape',
            'any call of os.Remove/RemoveAll/Rename/Truncate/Create/WriteFile/MkdirAll, or OpenFile without O_CREATE|O_EXCL or with O_TRUNC/O_APPEND, counts as touching pre-existing state',
            'counterexamples of these harnesses are not replayed natively (the stubs are engine-side); the main-level ones can be replayed with the real binary',
        ]
