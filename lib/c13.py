"""C13: the result depends only on the token sequence, not on layout, padding or file size.

Reduction (DESIGN.md section 7, C13): for every text, at every alignment against the buffer,
the real scanner (lexer.New + NextToken + the two-buffer reader) returns exactly the reference
token stream with the positions of the tokens' first characters.  The reference stream is a
function of the text alone and skips separators and comments by construction, so layout,
padding, file length and a missing final newline cannot influence what the parser receives."""
import os

from common import *
import c05
import ebnf_tokens


def run(tier, rep):
    thorough = tier == 'thorough'
    with Scratch() as sc:
        ref = ebnf_tokens.reference_dfa()
        if thorough:
            pads = [0, 1, 61, 4091, 4092, 4093, 4094, 4095, 4096, 4097, 8190, 8191, 8192, 12287]
            tails = ['', '\n', ' x', ';', '/*c*/', '//\tx\n;']
            n = 2
            bigs = [61, 4095, 4096, 4097, 8200]
        else:
            pads = [0, 4093, 4094, 4095, 4096, 8191]
            tails = ['', '\n', ' x', '//\tx\n;']
            n = 2
            bigs = [4096]
        files = c05.scan_files(sc, ref, [(0, 0)], scanPadN=n, scanPads=pads, scanTails=tails, scanBigs=bigs, scanLayN=1)
        cfg = c05.base_cfg(files, 'harnessScanPadded', tier, concretize=[c05.PKG + '.advanceDFA'], max_steps=60000000)
        res = run_gosym(cfg, sc, 'pad', timeout=6 * 3600)
        merge_gosym(rep, res, 'padded scan: %d paddings x %d tails x every text of 1..%d bytes (0x01..0x7F) through lexer.New/NextToken/reader vs reference stream' % (len(pads), len(tails), n))
        handle(rep, res, files, sc)
        cfg = c05.base_cfg(files, 'harnessScanLayout', tier, concretize=[c05.PKG + '.advanceDFA'], max_steps=200000000)
        res = run_gosym(cfg, sc, 'layout', timeout=6 * 3600)
        merge_gosym(rep, res, 'one giant skipped element (spaces / tabs / blank lines / block comment / line comment / comments with tabs) of %s bytes x %d tails x every text of 0..%d bytes' % (bigs, len(tails), 1))
        handle(rep, res, files, sc)
        rep.coverage['paddings'] = pads
        rep.coverage['tails'] = tails
        rep.assumptions += [
            'padding = spaces with a newline every 61 bytes (concrete); the symbolic part is 1..%d arbitrary bytes in 0x01..0x7F; tails are concrete' % n,
            'NUL excluded (reader sentinel, excluded by the property); io.Reader fills the buffer (short reads outside the claim)',
            'the optional-semicolon clause is decided under C04 (reductions 7/8 return nothing in both parsers); parser-level equality follows from stream equality',
            'reference: /verif/ref/ebnf_tokens.py',
        ]


def handle(rep, res, files, sc):
    known = {k['tag']: k for k in open_findings('C13')}
    known.update({k['tag']: k for k in open_findings('C05')})
    seen = {}
    n = 0
    for v in res.get('violations', []):
        kf = [t[3:] for t in v.get('tags') or [] if t.startswith('KF:') and t[3:] in known]
        key = (v['msg'][:60], tuple(kf))
        seen[key] = seen.get(key, 0) + 1
        if seen[key] > 1 or n >= 8:
            continue
        n += 1
        outcome, out = native_replay(c05.PKG_REL, 'lexer', files, v['harness'], v['inputs'], sc)
        rep.coverage['traces_validated_against_impl'] = rep.coverage.get('traces_validated_against_impl', 0) + 1
        what = '%s: %s inputs=%s native=%s' % (v['harness'], v['msg'], [(i['name'], i['value']) for i in v['inputs'] or []][:16], outcome)
        if not (outcome.startswith('assert-failed') or outcome.startswith('panic')):
            rep.inconc('counterexample did not reproduce natively: ' + what)
            continue
        if kf:
            k = known[kf[0]]
            rep.known_finding('%s %s' % (kf[0], k['what']))
        else:
            rep.violation(what, {'harness': v['harness'], 'pkg': c05.PKG_REL, 'inputs': v['inputs'], 'msg': v['msg'], 'native': outcome})
