"""C01: the EBNF-to-grammar translation preserves the language of every rule.

Per generated specification the real spec.Parse is run (dump driver) and the solver decides, over
one symbolic sentence of terminals up to length L, whether the plain productions emerge derived
and the EBNF text denote different languages from `start` or from any user-written rule.  Both
sides are least fixed points computed by span length with Kleene rounds (DESIGN.md 5.3)."""
import itertools
import multiprocessing
import os
import random

import z3

from common import *
import tv
import tvsmt

# ---- EBNF trees -------------------------------------------------------------------------------
# ('t', name) terminal (string literal "name", or a TOKEN when name is upper case)
# ('n', name) rule reference; ('eps',) empty alternative
# ('cat', [..]) ('alt', [..]) ('grp', e) ('opt', e) ('star', e) ('plus', e)


def pr(e, top=True):
    k = e[0]
    if k == 't':
        return e[1] if e[1].isupper() else '"%s"' % e[1]
    if k == 'n':
        return e[1]
    if k == 'eps':
        return ''
    if k == 'cat':
        return ' '.join(pr(x, False) if x[0] != 'alt' else '( ' + pr(x) + ' )' for x in e[1])
    if k == 'alt':
        return ' | '.join(pr(x, False) if x[0] != 'alt' else '( ' + pr(x) + ' )' for x in e[1]).rstrip() if e[1][-1][0] != 'eps' else (' | '.join(pr(x, False) for x in e[1][:-1]) + ' |')
    inner = pr(e[1])
    return {'grp': '( %s )', 'opt': '[ %s ]', 'star': '{ %s }', 'plus': '{{ %s }}'}[k] % inner


def spec_text(rules, tokens=('TK',)):
    lines = ['grammar g;']
    used = set()

    def walk(e):
        if e[0] == 't' and e[1].isupper():
            used.add(e[1])
        elif e[0] in ('cat', 'alt'):
            for x in e[1]:
                walk(x)
        elif e[0] in ('grp', 'opt', 'star', 'plus'):
            walk(e[1])
    for _, e in rules:
        if e is not None:
            walk(e)
    for t in sorted(used):
        lines.append('%s = "%s";' % (t, t.lower() + t.lower()))
    for name, e in rules:
        lines.append('%s = %s;' % (name, pr(e) if e is not None else ''))
    return '\n'.join(lines) + '\n'


def well_formed(e):
    """Printable and parseable shapes only: no empty first alternative, no eps outside alt, alt of >= 2."""
    k = e[0]
    if k == 'eps':
        return False
    if k == 'alt':
        if len(e[1]) < 2 or e[1][0][0] == 'eps':
            return False
        return all(x[0] == 'eps' or well_formed(x) for x in e[1])
    if k == 'cat':
        return len(e[1]) >= 2 and all(well_formed(x) for x in e[1])
    if k in ('grp', 'opt', 'star', 'plus'):
        return well_formed(e[1])
    return True


def trees(size, atoms):
    memo = {}

    def gen(s):
        if s in memo:
            return memo[s]
        out = []
        if s == 1:
            out = list(atoms)
        else:
            for t in gen(s - 1):
                for op in ('grp', 'opt', 'star', 'plus'):
                    out.append((op, t))
                if t[0] != 'alt':
                    out.append(('alt', [t, ('eps',)]))
                else:
                    if t[1][-1][0] != 'eps':
                        out.append(('alt', t[1] + [('eps',)]))
            for a in range(1, s - 1):
                b = s - 1 - a
                for x in gen(a):
                    for y in gen(b):
                        if x[0] != 'cat':
                            out.append(('cat', [x] + (y[1] if y[0] == 'cat' else [y])))
                        if x[0] != 'alt':
                            out.append(('alt', [x] + (y[1] if y[0] == 'alt' else [y])))
        memo[s] = out
        return out
    return gen(size)


X_RULE = ('x', ('alt', [('t', 'a'), ('cat', [('t', 'b'), ('n', 'x')])]))


def corpus(tier, seed):
    thorough = tier == 'thorough'
    a, b, T, x = ('t', 'a'), ('t', 'b'), ('t', 'TK'), ('n', 'x')
    specs = []
    seen = set()

    def add(rules, family):
        txt = spec_text(rules)
        if txt not in seen:
            seen.add(txt)
            specs.append({'rules': rules, 'text': txt, 'family': family})

    for s in range(1, (6 if thorough else 4) + 1):
        for t in trees(s, [a, b, x] if s <= 3 or not thorough else [a, b]):
            if well_formed(t):
                uses_x = 'x' in pr(t).split()
                add([('start', t)] + ([X_RULE] if uses_x else []), 'trees')
    # the same sub-expression under several operators, in every order; the same operator twice
    ops = ['grp', 'opt', 'star', 'plus']
    subs = [a, T, x, ('cat', [a, b]), ('alt', [a, b]), ('cat', [a, x]), ('opt', a)]
    for S in subs:
        for k in (2, 3, 4):
            for combo in itertools.permutations(ops, k) if k < 4 or thorough else list(itertools.permutations(ops, 4))[:6]:
                e = ('cat', [(op, S) for op in combo])
                add([('start', e)] + ([X_RULE] if 'x' in pr(e).split() else []), 'same-body')
        for op in ops:
            e = ('cat', [(op, S), b, (op, S)])
            add([('start', e)] + ([X_RULE] if 'x' in pr(e).split() else []), 'same-op-twice')
            e = ('alt', [(op, S), ('cat', [b, (op, S)])])
            add([('start', e)] + ([X_RULE] if 'x' in pr(e).split() else []), 'same-op-twice')
        # the same body in two different rules
        add([('start', ('cat', [('opt', S), ('n', 'y')])), ('y', ('cat', [('star', S), b]))] + ([X_RULE] if 'x' in pr(S).split() else []), 'two-rules')
    # two different bodies made of the same symbols under the same operator (they must not share a rule)
    bodies = [('cat', [a, b]), ('alt', [a, b]), ('cat', [b, a]), ('alt', [b, a]), ('alt', [('cat', [a, b]), a]), ('cat', [a, ('alt', [b, a])]),
              ('alt', [a, ('cat', [b, a])]), ('cat', [a, a]), ('alt', [a, ('eps',)]), ('cat', [a, b, a]), ('alt', [('cat', [a, b]), ('cat', [b, a])]), ('cat', [x, a]), ('alt', [x, a])]
    for op in ops:
        for S1, S2 in itertools.permutations(bodies, 2):
            e = ('cat', [(op, S1), T, (op, S2)])
            add([('start', e)] + ([X_RULE] if 'x' in pr(e).split() else []), 'similar-bodies')
    for S1, S2 in itertools.combinations(bodies[:8], 2):
        add([('start', ('cat', [a, ('grp', S1)])), ('y', ('cat', [b, ('grp', S2)])), ('z', ('alt', [('n', 'start'), ('n', 'y')]))], 'similar-bodies')
    # empty rules, recursion through synthesised rules
    add([('start', ('cat', [a, ('n', 'e')])), ('e', None)], 'empty-rule')
    add([('start', ('alt', [('cat', [a, ('n', 'start')]), ('eps',)]))], 'recursion')
    add([('start', ('star', ('cat', [a, ('opt', ('n', 'start'))])))], 'recursion')
    add([('start', ('opt', ('cat', [a, ('n', 'start'), b])))], 'recursion')
    add([('start', ('plus', ('alt', [a, ('grp', ('cat', [b, ('n', 'start')]))])))], 'recursion')
    # names that coincide with names emerge synthesises
    for nm in ['gen_x_opt', 'gen_x_star', 'gen_x_plus', 'gen_x_group', 'gen1_opt', 'gen1_star', 'gen2_plus', 'gen_a_opt']:
        add([('start', ('cat', [('opt', x), ('n', nm), ('star', ('cat', [a, b]))])), (nm, ('cat', [b, b])), X_RULE], 'name-clash')
    for nm, lit in [('lparen', '('), ('plus', '+'), ('star', '*'), ('dot', '.')]:
        add([('start', ('cat', [('opt', ('t', lit)), ('opt', ('n', nm))])), (nm, b)], 'name-clash')
        add([('start', ('cat', [('star', ('n', nm)), ('star', ('t', lit))])), (nm, ('cat', [a, a]))], 'name-clash')
    # a token, a rule and a punctuation literal whose names differ only in case / spelling, under the same operator
    for op in ops:
        add([('start', ('cat', [(op, ('t', 'TK')), (op, ('n', 'tk'))])), ('tk', ('cat', [a, b]))], 'name-clash')
        add([('start', ('cat', [(op, ('n', 'xy')), b, (op, ('t', 'XY'))])), ('xy', ('alt', [a, ('cat', [b, a])]))], 'name-clash')
        add([('start', ('cat', [(op, ('t', 'STAR')), (op, ('t', '*'))]))], 'name-clash')
        add([('start', ('cat', [(op, ('t', 'PLUS')), a, (op, ('t', '+'))]))], 'name-clash')
    rnd = random.Random(seed)

    def rtree(d):
        if d == 0 or rnd.random() < 0.3:
            return rnd.choice([a, b, T, x, ('n', 'start')])
        c = rnd.random()
        if c < 0.3:
            return ('cat', [rtree(d - 1) for _ in range(rnd.randint(2, 3))])
        if c < 0.5:
            alts = [rtree(d - 1) for _ in range(rnd.randint(2, 3))]
            if rnd.random() < 0.3:
                alts.append(('eps',))
            return ('alt', alts)
        return (rnd.choice(ops), rtree(d - 1))
    for _ in range(1500 if thorough else 150):
        t = rtree(rnd.randint(2, 3))
        if well_formed(t):
            toks = pr(t).split()
            add([('start', t)] + ([X_RULE] if 'x' in toks else []), 'random')
    return specs


# ---- least fixed points over spans -------------------------------------------------------------

def And(*xs):
    out = []
    for x in xs:
        if x is False:
            return False
        if x is True:
            continue
        out.append(x)
    if not out:
        return True
    return out[0] if len(out) == 1 else z3.And(out)


def Or(xs):
    out = []
    for x in xs:
        if x is True:
            return True
        if x is False:
            continue
        out.append(x)
    if not out:
        return False
    return out[0] if len(out) == 1 else z3.Or(out)


def tobool(x):
    return z3.BoolVal(x) if isinstance(x, bool) else x


class CFG:
    def __init__(self, prods):
        self.prods = prods  # list of (head, [(is_terminal, name)])
        self.nts = sorted({h for h, _ in prods} | {n for _, b in prods for t, n in b if not t})
        self.nullable = set()
        ch = True
        while ch:
            ch = False
            for h, b in prods:
                if h not in self.nullable and all((not t) and n in self.nullable for t, n in b):
                    self.nullable.add(h)
                    ch = True

    def matrices(self, w, code, L):
        V = {}
        for A in self.nts:
            for i in range(L + 1):
                V[(A, i, i)] = A in self.nullable
        # nonterminals that can depend on a same-length span of another one
        dep = set()
        for h, b in self.prods:
            for idx, (t, n) in enumerate(b):
                if not t and all((not t2) and n2 in self.nullable for j, (t2, n2) in enumerate(b) if j != idx):
                    dep.add(h)
                    dep.add(n)
        rounds = min(len(dep), len(self.nts)) + 1
        byhead = {}
        for h, b in self.prods:
            byhead.setdefault(h, []).append(b)
        for length in range(1, L + 1):
            cur = {(A, i, i + length): False for A in self.nts for i in range(L + 1 - length)}
            for _ in range(rounds):
                new = {}
                for (A, i, j) in cur:
                    def look(B, a, b_):
                        return V[(B, a, b_)] if b_ - a < length else cur[(B, a, b_)]

                    def rest(body, idx, a):
                        # does body[idx:] derive w[a:j] ?
                        if idx == len(body):
                            return a == j
                        t, nme = body[idx]
                        if t:
                            if a >= j or nme not in code:
                                return False
                            return And(w[a] == code[nme], rest(body, idx + 1, a + 1))
                        if idx == len(body) - 1:
                            return look(nme, a, j)
                        return Or(And(look(nme, a, m), rest(body, idx + 1, m)) for m in range(a, j + 1))
                    new[(A, i, j)] = Or(rest(b, 0, i) for b in byhead.get(A, []))
                cur = new
            V.update(cur)
        return V


class EBNF:
    def __init__(self, rules):
        self.rules = dict((n, e) for n, e in rules)
        self.null = {}
        ch = True
        self.nullable = set()
        while ch:
            ch = False
            for n, e in self.rules.items():
                if n not in self.nullable and self.nul(e):
                    self.nullable.add(n)
                    ch = True

    def nul(self, e):
        if e is None:
            return True
        k = e[0]
        if k == 't':
            return False
        if k == 'n':
            return e[1] in self.nullable
        if k == 'eps':
            return True
        if k == 'cat':
            return all(self.nul(x) for x in e[1])
        if k == 'alt':
            return any(self.nul(x) for x in e[1])
        if k in ('opt', 'star'):
            return True
        return self.nul(e[1])

    def matrices(self, w, code, L):
        V = {}
        names = sorted(self.rules)
        for A in names:
            for i in range(L + 1):
                V[(A, i, i)] = A in self.nullable
        rounds = len(names) + 1
        for length in range(1, L + 1):
            cur = {(A, i, i + length): False for A in names for i in range(L + 1 - length)}
            for _ in range(rounds):
                new = {}
                memo = {}

                def look(B, a, b_):
                    if B not in self.rules:
                        return False
                    return V[(B, a, b_)] if b_ - a < length else cur[(B, a, b_)]

                def E(e, a, b_):
                    if e is None:
                        return a == b_
                    key = (id(e), a, b_)
                    if key in memo:
                        return memo[key]
                    k = e[0]
                    if k == 't':
                        r = And(w[a] == code[e[1]]) if (b_ == a + 1 and e[1] in code) else False
                    elif k == 'n':
                        r = look(e[1], a, b_)
                    elif k == 'eps':
                        r = a == b_
                    elif k == 'alt':
                        r = Or(E(x, a, b_) for x in e[1])
                    elif k == 'cat':
                        r = cat(e[1], 0, a, b_)
                    elif k == 'grp':
                        r = E(e[1], a, b_)
                    elif k == 'opt':
                        r = Or([a == b_, E(e[1], a, b_)])
                    elif k == 'star':
                        r = star(e, a, b_)
                    elif k == 'plus':
                        r = Or(And(E(e[1], a, m), star(e, m, b_)) for m in range(a, b_ + 1))
                    else:
                        raise ValueError(k)
                    memo[key] = r
                    return r

                def cat(items, idx, a, b_):
                    key = ('c', id(items), idx, a, b_)
                    if key in memo:
                        return memo[key]
                    if idx == len(items) - 1:
                        r = E(items[idx], a, b_)
                    else:
                        r = Or(And(E(items[idx], a, m), cat(items, idx + 1, m, b_)) for m in range(a, b_ + 1))
                    memo[key] = r
                    return r

                def star(e, a, b_):
                    key = ('s', id(e), a, b_)
                    if key in memo:
                        return memo[key]
                    if a == b_:
                        r = True
                    else:
                        r = Or(And(E(e[1], a, m), star(e, m, b_)) for m in range(a + 1, b_ + 1))
                    memo[key] = r
                    return r
                for (A, i, j) in cur:
                    new[(A, i, j)] = E(self.rules[A], i, j)
                cur = new
            V.update(cur)
        return V


# ---- concrete replay (Earley-free: bottom-up closure, small sentences) ---------------------------

def cfg_derives(prods, start, sent):
    n = len(sent)
    nts = {h for h, _ in prods} | {x for _, b in prods for t, x in b if not t}
    D = {(A, i, j): False for A in nts for i in range(n + 1) for j in range(i, n + 1)}
    ch = True
    while ch:
        ch = False
        for h, b in prods:
            for i in range(n + 1):
                for j in range(i, n + 1):
                    if D[(h, i, j)]:
                        continue
                    pos = {i}
                    for t, x in b:
                        nxt = set()
                        for p in pos:
                            if t:
                                if p < j and sent[p] == x:
                                    nxt.add(p + 1)
                            else:
                                for m in range(p, j + 1):
                                    if D.get((x, p, m)):
                                        nxt.add(m)
                        pos = nxt
                    if j in pos:
                        D[(h, i, j)] = True
                        ch = True
    return D.get((start, 0, n), False)


def ebnf_to_prods(rules):
    """Textbook expansion, used only to replay a witness concretely."""
    prods = []
    cnt = [0]

    def fresh():
        cnt[0] += 1
        return '$%d' % cnt[0]

    def seqs(e):
        k = e[0]
        if k == 't':
            return [[(True, e[1])]]
        if k == 'n':
            return [[(False, e[1])]]
        if k == 'eps':
            return [[]]
        if k == 'alt':
            return [s for x in e[1] for s in seqs(x)]
        if k == 'cat':
            out = [[]]
            for x in e[1]:
                out = [a + b for a in out for b in seqs(x)]
            return out
        g = fresh()
        inner = seqs(e[1])
        if k == 'grp':
            for s in inner:
                prods.append((g, s))
        elif k == 'opt':
            for s in inner:
                prods.append((g, s))
            prods.append((g, []))
        elif k == 'star':
            for s in inner:
                prods.append((g, [(False, g)] + s))
            prods.append((g, []))
        else:
            for s in inner:
                prods.append((g, [(False, g)] + s))
                prods.append((g, s))
        return [[(False, g)]]
    for n, e in rules:
        if e is None:
            prods.append((n, []))
        else:
            for s in seqs(e):
                prods.append((n, s))
    return prods


# ---- per-specification check ------------------------------------------------------------------------

def name_clash(spec):
    """Known finding C01-name-collision: a user rule is named like a name emerge synthesises."""
    import re
    names = [n for n, _ in spec['rules']]
    if any(re.match(r'^gen(_.*|\d+)_(opt|group|star|plus)$', n) for n in names):
        return True
    tn = {'lparen', 'rparen', 'plus', 'star', 'dot', 'tab', 'newline', 'space', 'exclam', 'dquot', 'hash', 'dollar', 'percent', 'ampersand', 'squot', 'comma', 'dash', 'slash', 'colon',
          'semi', 'lt', 'equal', 'gt', 'question', 'atsign', 'lbrack', 'backslash', 'rbrack', 'caret', 'underscore', 'backtick', 'rbrace', 'bar', 'lbrace', 'tilde'}
    return any(n in tn for n in names)


def check_one(args):
    idx, spec, out, L = args
    st = tvsmt.Stats()
    res = {'idx': idx, 'text': spec['text'], 'problems': [], 'kf': [], 'skipped': None}
    if out.get('panic'):
        res['problems'].append({'kind': 'panic', 'what': 'panic: ' + out['panic']})
        res['stats'] = st.__dict__
        return res
    if out.get('err') or not out.get('spec'):
        res['skipped'] = 'rejected: %s' % (out.get('err') or '')[:200]
        res['stats'] = st.__dict__
        return res
    sp = out['spec']
    prods = [(p['head'], [(s['t'], s['name']) for s in p['body']]) for p in (sp.get('prods') or [])]
    terms = sorted(sp.get('terminals') or [])
    code = {t: i for i, t in enumerate(terms)}
    # the EBNF text names token terminals by their token name and literals by their text
    user = [n for n, _ in spec['rules']]
    structural = []
    heads = {h for h, _ in prods}
    for h, b in prods:
        if h == '':
            structural.append('a production has an empty non-terminal name as its head')
        for t, n in b:
            if n == '':
                structural.append('a production of %s refers to a symbol with an empty name' % h)
            if not t and n not in heads:
                structural.append('non-terminal %s is used but has no production' % n)
    w = [z3.BitVec('s%d' % i, 8) for i in range(L)]
    n = z3.BitVec('n', 8)
    cons = [z3.ULE(n, L)] + [z3.ULT(x, max(1, len(terms))) for x in w]
    cfg = CFG(prods)
    ebnf = EBNF(spec['rules'])
    D = cfg.matrices(w, code, L)
    M = ebnf.matrices(w, code, L)
    diffs = []
    for X in user:
        for j in range(L + 1):
            d = D.get((X, 0, j), False)
            m = M.get((X, 0, j), False)
            if d is m or (isinstance(d, bool) and isinstance(m, bool) and d == m):
                continue
            diffs.append(z3.And(n == j, tobool(d) != tobool(m), z3.BoolVal(True)))
            diffs[-1] = z3.And(diffs[-1], z3.BoolVal(True))
    witness = None
    if diffs:
        # find which rule differs: one query per rule keeps the witness attributable
        for X in user:
            ds = []
            for j in range(L + 1):
                d, m = D.get((X, 0, j), False), M.get((X, 0, j), False)
                if isinstance(d, bool) and isinstance(m, bool):
                    if d != m:
                        ds.append(n == j)
                    continue
                ds.append(z3.And(n == j, tobool(d) != tobool(m)))
            if not ds:
                continue
            s = tvsmt.new_solver()
            s.add(cons)
            s.add(z3.Or(ds))
            r = tvsmt.check(s, st)
            if r == z3.sat:
                mdl = s.model()
                k = mdl.eval(n, model_completion=True).as_long()
                sent = [terms[mdl.eval(w[i], model_completion=True).as_long()] for i in range(k)]
                witness = (X, sent)
                break
            if r == z3.unknown:
                res['problems'].append({'kind': 'unknown', 'what': 'solver gave up'})
    if witness:
        X, sent = witness
        impl = cfg_derives(prods, X, sent)
        ref = cfg_derives(ebnf_to_prods(spec['rules']), X, sent)
        prob = {'kind': 'language', 'rule': X, 'sentence': sent, 'impl': impl, 'ref': ref,
                'what': 'rule %s: sentence %r is %s by the derived grammar but %s by the EBNF text' % (X, ' '.join(sent), 'generated' if impl else 'not generated', 'denoted' if ref else 'not denoted')}
        if impl == ref:
            prob['kind'] = 'unreplayed'
        if name_clash(spec):
            res['kf'].append({'tag': 'C01-name-collision', 'prob': prob})
        else:
            res['problems'].append(prob)
    if structural and not witness:
        prob = {'kind': 'structure', 'what': structural[0]}
        if name_clash(spec):
            res['kf'].append({'tag': 'C01-name-collision', 'prob': prob})
        else:
            res['problems'].append(prob)
    res['stats'] = st.__dict__
    return res


def run(tier, rep):
    thorough = tier == 'thorough'
    L = 7 if thorough else 5
    corp = corpus(tier, rep.seed)
    with Scratch() as sc:
        outs = tv.run_jobs([{'op': 'spec', 'text': s['text']} for s in corp], sc, 'c01')
        work = [(i, s, outs[i], L) for i, s in enumerate(corp) if outs[i] is not None]
        if len(work) != len(corp):
            rep.inconc('dump driver lost %d specifications' % (len(corp) - len(work)))
        with multiprocessing.Pool(min(10, os.cpu_count() or 1)) as pool:
            results = pool.map(check_one, work, chunksize=4)
        total = tvsmt.Stats()
        known = {k['tag']: k for k in open_findings('C01')}
        samples, skipped, nprob = [], 0, 0
        kf_seen = {}
        fam = {}
        shown = {}
        for r in results:
            s = tvsmt.Stats()
            s.__dict__.update(r['stats'])
            total.add(s)
            f = corp[r['idx']]['family']
            fam[f] = fam.get(f, 0) + 1
            if r['skipped']:
                skipped += 1
                continue
            if len(samples) < 5:
                samples.append({'specification': r['text'], 'verdict': 'differs' if r['problems'] else 'same sentences up to L for every rule'})
            for k in r['kf']:
                kf_seen.setdefault(k['tag'], []).append((r['text'], k['prob']))
            for p in r['problems']:
                nprob += 1
                if p['kind'] in ('unknown', 'unreplayed'):
                    rep.inconc('%s: %s' % (p['kind'], p.get('what')))
                    continue
                key = p['what'][:40]
                shown[key] = shown.get(key, 0) + 1
                if shown[key] <= 2 and len(rep.violations) < 10:
                    rep.coverage['disagreements_checked'] = rep.coverage.get('disagreements_checked', 0) + 1
                    rep.violation('%s; specification:\n%s' % (p['what'], r['text']), {'spec': r['text'], 'problem': p})
        for tag, lst in kf_seen.items():
            text, prob = lst[0]
            rep.coverage['disagreements_checked'] = rep.coverage.get('disagreements_checked', 0) + 1
            if tag in known:
                rep.known_finding('%s %s [witness: %s; specification: %s; %d specifications of the class differ]' % (tag, known[tag]['what'], prob['what'], text.replace('\n', ' '), len(lst)))
            else:
                rep.violation('%s; specification:\n%s' % (prob['what'], text), {'spec': text, 'problem': prob})
        rep.coverage.update({
            'programs': len(work) - skipped, 'rejected_by_emerge_not_checked': skipped, 'samples': samples, 'families': fam,
            'queries': total.queries, 'queries_sat': total.sat, 'queries_unsat': total.unsat, 'queries_unknown': total.unknown, 'solver_seconds': round(total.seconds, 2),
            'sentence_length_bound': L, 'specifications_differing': nprob,
            'functions_run': ['spec.Parse (semantic actions 20-31, SymbolTable.GetOpt/GetGroup/GetStar/GetPlus, mapStringToNoneTerminal, eqStrings/hashStrings)', '(*Spec).Productions'],
        })
        rep.coverage.setdefault('disagreements_checked', 0)
        rep.assumptions += [
            'enumerated dimension: all right-hand-side trees up to %d nodes over {"a","b",x}; the same sub-expression under 2-4 operators in every order, the same operator twice, the same body in two rules; recursion through synthesised rules; rule names equal to synthesised names; seeded random trees' % (6 if thorough else 4),
            'solver dimension: all terminal strings of length <= %d, from start and from every user-written rule; both sides are least fixed points (span length x Kleene rounds)' % L,
            'specifications emerge rejects (e.g. unproductive recursion) are counted, not judged (C07 is not claimed)',
            'a witness is replayed by deriving it concretely in the dumped productions and in a textbook expansion of the EBNF text',
        ]
