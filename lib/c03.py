"""C03: the combined scanner automaton is the exact union, attributes each accepting state to the
right terminal, and reports a conflict iff one is real."""
import itertools
import multiprocessing
import os
import random

import z3

from common import *
import fa
import regex_ref as rr
import tv
import tvsmt

A, B = rr.lit('a'), rr.lit('b')


def P(text, tree):
    return {'kind': 'pat', 'text': text, 'tree': tree}


def LIT(src, chars):
    """src: the text between the quotes as written in the EBNF file; chars: the characters it denotes."""
    return {'kind': 'lit', 'text': src, 'chars': chars}


def palette():
    az = ('bracket', False, [('range', rr.lit('a'), rr.lit('z'))])
    dig = ('class', r'\d')
    d09 = ('bracket', False, [('range', rr.lit('0'), rr.lit('9'))])
    I, F, N = rr.lit('i'), rr.lit('f'), rr.lit('n')
    pats = [
        ('cat', [az, rr.q(az, 0, None)]),                                  # [a-z][a-z]*
        ('cat', [I, rr.q(az, 0, None)]),                                   # i[a-z]*   (nested in the first)
        ('grp', ('alt', [('cat', [I, F]), ('cat', [I, N])])),              # (if|in)   (finite, inside both)
        rr.q(dig, 1, None),                                               # \d+
        rr.q(d09, 1, None),                                               # [0-9]+    (identical language)
        ('cat', [rr.q(A, 1, None), rr.q(B, 0, None)]),                     # a+b*
        ('cat', [A, B]),                                                   # ab
        ('bracket', False, [A, I]),                                        # [ai]
        ('cat', [rr.lit('"'), rr.q(az, 0, None), rr.lit('"')]),            # "[a-z]*"  (overlaps the quote literal's first char)
        ('cat', [rr.lit('+', 'esc'), rr.q(rr.lit('+', 'esc'), 0, 1)]),     # \+\+?
        ('cat', [rr.lit('\\', 'esc'), az]),                                # \\[a-z]
    ]
    pats = [P(rr.pr(rr.normalise(t)), rr.normalise(t)) for t in pats]
    # patterns without any operator character, and patterns that begin with the start-of-string marker
    # (which changes nothing for a token): shapes a "plain pattern" shortcut would get wrong
    dd = rr.normalise(('cat', [dig, dig]))
    xa = rr.normalise(('cat', [rr.lit(0x41, 'x2'), rr.lit('b')]))
    iff = rr.normalise(('cat', [I, F]))
    iaz = rr.normalise(('cat', [I, rr.q(az, 0, None)]))
    pats += [P(rr.pr(dd), dd), P(rr.pr(xa), xa), P('^' + rr.pr(iff), iff), P('^' + rr.pr(iaz), iaz), P('^' + rr.pr(dd), dd)]
    lits = [LIT('if', 'if'), LIT('i', 'i'), LIT('in', 'in'), LIT('a', 'a'), LIT('ab', 'ab'), LIT('+', '+'), LIT('++', '++'), LIT('12', '12'),
            LIT('\\"', '"'), LIT('\\\\', '\\'), LIT('a\\"b', 'a"b'), LIT('\\\\n', '\\n'),
            # adjacent escapes
            LIT('\\\\\\\\', '\\\\'), LIT('\\\\\\"', '\\"'), LIT('x\\\\\\\\y', 'x\\\\y'), LIT('\\"\\"', '""'), LIT('\\a\\b', 'ab2'[:0] + 'ab')]
    return lits, pats


def spec_text(defs, named):
    """EBNF text declaring the definitions; named[i] tells whether literal i is a named token."""
    lines = ['grammar g;']
    terms = []
    for i, d in enumerate(defs):
        if d['kind'] == 'lit' and not named[i]:
            terms.append('"%s"' % d['text'])
        elif d['kind'] == 'lit':
            lines.append('T%d = "%s";' % (i, d['text']))
            terms.append('T%d' % i)
        else:
            lines.append('T%d = /%s/;' % (i, d['text']))
            terms.append('T%d' % i)
    lines.append('start = ' + ' | '.join(terms) + ';')
    return '\n'.join(lines) + '\n'


def corpus(tier, seed):
    lits, pats = palette()
    alld = lits + pats
    rnd = random.Random(seed)
    out = []
    maxk = 4 if tier == 'thorough' else 3
    combos = []
    for k in range(1, maxk + 1):
        for c in itertools.combinations(range(len(alld)), k):
            combos.append(c)
    if tier != 'thorough':
        # all singletons and pairs, a seeded sample of triples
        small = [c for c in combos if len(c) <= 2]
        big = [c for c in combos if len(c) == 3]
        rnd.shuffle(big)
        combos = small + big[:400]
    else:
        small = [c for c in combos if len(c) <= 3]
        big = [c for c in combos if len(c) == 4]
        rnd.shuffle(big)
        combos = small + big[:3000]
    # every literal together with every pair of patterns that both capture its text (the winner rule with
    # more than one competitor), independent of the sample above
    seen = set(combos)
    for li, l in enumerate(lits):
        word = [ord(ch) for ch in l['chars']]
        hit = [len(lits) + pi for pi, p in enumerate(pats) if rr.matches(p['tree'], word)]
        for a, b in itertools.combinations(hit, 2):
            c = (li, a, b)
            if c not in seen:
                seen.add(c)
                combos.append(c)
    for c in combos:
        defs = [alld[i] for i in c]
        named = [rnd.random() < 0.4 for _ in defs]
        out.append((defs, named, spec_text(defs, named)))
    return out


def lit_tree(chars):
    return ('cat', [rr.lit(ch) for ch in chars]) if len(chars) > 1 else rr.lit(chars)


def to_fa(n):
    k = n[0]
    if rr.is_set(n):
        return ('set', rr.charset(n))
    if k == 'grp':
        return to_fa(n[1])
    if k == 'cat':
        return ('cat', [to_fa(x) for x in n[1]])
    if k == 'alt':
        return ('alt', [to_fa(x) for x in n[1]])
    if k == 'q':
        _, item, lo, hi, lazy, form = n
        f = to_fa(item)
        parts = [f] * lo
        if hi is None:
            parts.append(('star', f))
        else:
            parts += [('opt', f)] * (hi - lo)
        return ('cat', parts) if parts else ('eps',)
    raise ValueError(k)


def reference_product(trees):
    """Deterministic product of the reference automata; label = frozenset of matching definitions."""
    nfa = fa.NFA()
    start = nfa.new()
    ends = {}
    for i, t in enumerate(trees):
        a, b = fa.thompson(nfa, to_fa(t))
        nfa.add_eps(start, a)
        ends[b] = i
    out = tvsmt.Auto()
    s0 = fa.closure(nfa, [start])
    ids = {s0: 0}
    work = [s0]
    labels = {}
    while work:
        S = work.pop()
        sid = ids[S]
        out.states.add(sid)
        lab = frozenset(ends[x] for x in S if x in ends)
        if lab:
            labels[sid] = lab
            out.final.add(sid)
        sets = [iv for x in S for iv, _ in nfa.tr.get(x, ())]
        if not sets:
            continue
        row = []
        for a, b in fa.partition(sets):
            T = set()
            for x in S:
                for iv, y in nfa.tr.get(x, ()):
                    if fa.contains(iv, a):
                        T.add(y)
            if not T:
                continue
            T = fa.closure(nfa, T)
            if T not in ids:
                ids[T] = len(ids)
                work.append(T)
            if row and row[-1][1] == ids[T] and row[-1][0][1] + 1 == a:
                row[-1] = ((row[-1][0][0], b), ids[T])
            else:
                row.append(((a, b), ids[T]))
        out.rows[sid] = row
    return out, labels


def winner(lab, kinds):
    """The documented rule on a set of matching definitions: the only one; or the single literal."""
    if not lab:
        return None
    if len(lab) == 1:
        return next(iter(lab))
    lits = [i for i in lab if kinds[i] == 'lit']
    if len(lits) == 1:
        return lits[0]
    return 'CONFLICT'


def check_one(args):
    idx, defs, text, out, L = args
    st = tvsmt.Stats()
    res = {'idx': idx, 'text': text, 'problems': [], 'kf': []}
    kinds = [d['kind'] for d in defs]
    trees = [lit_tree(d['chars']) if d['kind'] == 'lit' else d['tree'] for d in defs]
    if out.get('panic'):
        res['problems'].append({'kind': 'panic', 'what': 'panic: ' + out['panic'], 'word': []})
        res['stats'] = st.__dict__
        return res
    if out.get('err') and 'multiple definitions with the same value' in out['err']:
        # emerge's own well-formedness rule (a literal and a pattern written with the same text): not judged here
        res['skipped'] = 'same-value rule'
        res['stats'] = st.__dict__
        return res
    if out.get('err') or not out.get('spec'):
        res['problems'].append({'kind': 'rejected', 'what': 'a well-formed specification is rejected: %s' % out.get('err'), 'word': []})
        res['stats'] = st.__dict__
        return res
    # map my definitions to emerge's terminals through the dumped definition list (value + kind)
    term_of = {}
    for i, d in enumerate(defs):
        for vd in out['spec']['defs']:
            if vd['is_regex'] == (d['kind'] == 'pat') and vd['value'] == d['text'] and vd['terminal'] not in term_of.values():
                term_of[i] = vd['terminal']
                break
    if len(term_of) != len(defs) or len(out['spec']['defs']) != len(defs):
        res['problems'].append({'kind': 'defs', 'what': 'the definitions emerge recorded are not the ones declared: %r' % out['spec']['defs'], 'word': []})
        res['stats'] = st.__dict__
        return res
    conflict_reported = 'dfa' in (out.get('errs') or {})
    # reference: span matrices over one symbolic word
    cps = set()
    for t in trees:
        cps |= rr.code_points(t)
    w, n, cons = tvsmt.word(L, cps)
    has_nul = [rr.any_node(t, rr.impl_set_has_nul) for t in trees]
    Ms = [tvsmt.regex_matrix(t, w, L, False) for t in trees]
    match = [z3.Or([z3.And(n == j, Ms[i](trees[i], 0, j)) for j in range(L + 1)]) for i in range(len(trees))]
    lit_ids = [i for i in range(len(defs)) if kinds[i] == 'lit']
    pat_ids = [i for i in range(len(defs)) if kinds[i] == 'pat']
    two_pats = z3.Or([z3.And(match[i], match[j]) for i in pat_ids for j in pat_ids if i < j]) if len(pat_ids) > 1 else z3.BoolVal(False)
    some_lit = z3.Or([match[i] for i in lit_ids]) if lit_ids else z3.BoolVal(False)
    real_conflict = z3.And(two_pats, z3.Not(some_lit))
    s = tvsmt.new_solver()
    s.add(cons)
    s.add(real_conflict)
    r = tvsmt.check(s, st)
    if r == z3.unknown:
        res['problems'].append({'kind': 'unknown', 'what': 'solver gave up on the conflict query', 'word': []})
    elif conflict_reported and r == z3.unsat:
        # no witness within L: consult the unbounded reference product before calling it spurious
        prod, labels = reference_product(trees)
        if not any(winner(l, kinds) == 'CONFLICT' for l in labels.values()):
            res['problems'].append({'kind': 'spurious-conflict', 'what': 'emerge reports a definition conflict although no text is matched by two patterns without a literal: %s' % out['errs']['dfa'][:200], 'word': []})
    elif (not conflict_reported) and r == z3.sat:
        word = tvsmt.model_word(s.model(), w, n)
        res['problems'].append({'kind': 'missed-conflict', 'what': 'two patterns match the same text with no literal to break the tie, but no conflict is reported', 'word': word})
    if conflict_reported or 'combined' not in (out.get('stages') or {}):
        res['stats'] = st.__dict__
        return res
    auto = tvsmt.Auto(out['stages']['combined'])
    owner = {}
    for i, t in term_of.items():
        for q in (out.get('term_map') or {}).get(t, []):
            owner.setdefault(q, []).append(i)
    # (d) every accepting state owned by exactly one terminal, non-accepting by none
    for q in auto.states:
        k = len(owner.get(q, []))
        if (q in auto.final) != (k == 1):
            res['problems'].append({'kind': 'ownership', 'what': 'state %d is %saccepting but is owned by %d terminals' % (q, '' if q in auto.final else 'not ', k), 'word': []})
    # (a)+(b): impl owner of w == documented winner of w, for every word up to L
    qv = z3.BitVecVal(auto.start, tvsmt.SW)
    states = [qv]
    for i in range(L):
        qv = tvsmt.delta_expr(auto, qv, w[i])
        states.append(qv)
    NONE = len(defs)

    def owner_expr(q):
        e = z3.BitVecVal(NONE, 8)
        for st_, lst in owner.items():
            e = z3.If(q == st_, z3.BitVecVal(lst[0], 8), e)
        return e
    impl_owner = z3.BitVecVal(NONE, 8)
    for j in range(L, -1, -1):
        impl_owner = z3.If(n == j, owner_expr(states[j]), impl_owner)
    # documented winner
    exp = z3.BitVecVal(NONE, 8)
    for i in pat_ids:
        exp = z3.If(match[i], z3.BitVecVal(i, 8), exp)
    for i in lit_ids:
        exp = z3.If(match[i], z3.BitVecVal(i, 8), exp)
    s = tvsmt.new_solver()
    s.add(cons)
    s.add(z3.Not(real_conflict))
    s.add(impl_owner != exp)
    r = tvsmt.check(s, st)
    if r == z3.unknown:
        res['problems'].append({'kind': 'unknown', 'what': 'solver gave up on the owner query', 'word': []})
    elif r == z3.sat:
        m = s.model()
        word = tvsmt.model_word(m, w, n)
        io, eo = m.eval(impl_owner, model_completion=True).as_long(), m.eval(exp, model_completion=True).as_long()
        prob = {'kind': 'owner', 'what': 'text attributed to %s but the documented winner is %s' % ('no terminal' if io == NONE else term_of[io], 'no terminal' if eo == NONE else term_of[eo]),
                'word': word, 'impl_owner': None if io == NONE else term_of[io], 'want_owner': None if eo == NONE else term_of[eo]}
        if any(has_nul):
            res['kf'].append({'tag': 'C02-nul-epsilon', 'word': word, 'prob': prob})
        else:
            res['problems'].append(prob)
    # unbounded: labelled bisimulation with the reference product (thorough and quick: it is cheap)
    if not any(has_nul):
        prod, labels = reference_product(trees)
        r = tvsmt.bisim(auto, prod, st, label_a=lambda q: (owner.get(q) or [None])[0] if q in auto.final else None,
                        label_b=lambda q: winner(labels.get(q, frozenset()), kinds))
        if r is not None and r.get('kind') in ('unknown', 'relation too large'):
            res['problems'].append({'kind': 'unknown', 'what': 'bisimulation: ' + r['kind'], 'word': []})
        elif r is not None and not any(p['kind'] == 'owner' for p in res['problems']):
            res['problems'].append({'kind': 'product', 'what': 'combined automaton differs from the product of the reference automata (%s %s)' % (r.get('kind'), r.get('labels', '')), 'word': r.get('word', [])})
    res['stats'] = st.__dict__
    return res


def run(tier, rep):
    thorough = tier == 'thorough'
    L = 8 if thorough else 6
    corp = corpus(tier, rep.seed)
    with Scratch() as sc:
        outs = tv.run_jobs([{'op': 'dfa', 'text': text} for _, _, text in corp], sc, 'c03')
        work = []
        for i, (defs, named, text) in enumerate(corp):
            if outs[i] is None:
                rep.inconc('dump driver lost a specification')
                continue
            work.append((i, defs, text, outs[i], L))
        with multiprocessing.Pool(min(10, os.cpu_count() or 1)) as pool:
            results = pool.map(check_one, work, chunksize=4)
        total = tvsmt.Stats()
        known = {k['tag']: k for k in open_findings('C03')}
        problems, kf_seen, samples = [], {}, []
        for r in results:
            s = tvsmt.Stats()
            s.__dict__.update(r['stats'])
            total.add(s)
            if len(samples) < 5:
                samples.append({'specification': r['text'], 'verdict': 'differs' if r['problems'] else 'union/winner/conflict as documented', 'witness': (r['problems'] or [{}])[0].get('word')})
            for k in r['kf']:
                kf_seen.setdefault(k['tag'], []).append((r['text'], k['word'], k['prob']))
            for p in r['problems']:
                problems.append((r['text'], p))
        # native replay
        seen_kind = {}
        jobs, idx = [], []
        for text, p in problems:
            key = (p['kind'], p['what'][:50])
            seen_kind[key] = seen_kind.get(key, 0) + 1
            if seen_kind[key] > 2 or len(jobs) >= 12:
                continue
            jobs.append({'op': 'scan', 'text': text, 'word': p.get('word') or []})
            idx.append(('p', text, p))
        for tag, lst in kf_seen.items():
            jobs.append({'op': 'scan', 'text': lst[0][0], 'word': lst[0][1]})
            idx.append(('kf', tag, lst[0]))
        routs = tv.run_jobs(jobs, sc, 'c03replay') if jobs else []
        for (kind, a, b), o in zip(idx, routs):
            rep.coverage['disagreements_checked'] = rep.coverage.get('disagreements_checked', 0) + 1
            acc = (o or {}).get('accept') or {}
            if kind == 'kf':
                text, word, prob = b
                if a in known and acc.get('owner') == prob['impl_owner']:
                    rep.known_finding('%s %s [witness: text %r attributed to %s, documented winner %s; %d definition sets differ only through this quirk]' % (a, known[a]['what'], ''.join(map(chr, word)), prob['impl_owner'], prob['want_owner'], len(kf_seen[a])))
                else:
                    rep.violation('scanner attributes %r to %s, documented winner %s' % (word, acc, prob['want_owner']), {'spec': text, 'word': word, 'native': acc})
                continue
            text, p = a, b
            if p['kind'] == 'unknown':
                rep.inconc(p['what'])
                continue
            if p['kind'] == 'owner' and acc.get('owner') != p['impl_owner']:
                rep.inconc('owner witness did not reproduce natively: %r %r native=%r' % (p['word'], p, acc))
                continue
            rep.violation('%s; witness text %r; specification:\n%s' % (p['what'], ''.join(map(chr, p.get('word') or [])), text), {'spec': text, 'word': p.get('word'), 'kind': p['kind'], 'native': acc})
        rep.coverage.update({
            'programs': len(work), 'samples': samples, 'queries': total.queries, 'queries_sat': total.sat, 'queries_unsat': total.unsat, 'queries_unknown': total.unknown,
            'solver_seconds': round(total.seconds, 2), 'word_length_bound': L, 'sets_differing': len({t for t, _ in problems}),
            'sets_rejected_by_same_value_rule_not_judged': sum(1 for r in results if r.get('skipped')),
            'functions_run': ['spec.Parse', '(*Spec).DFA', 'spec.stringToDFA', 'spec.regexToDFA', 'auto.CombineDFA'],
        })
        rep.coverage.setdefault('disagreements_checked', 0)
        rep.assumptions += [
            'enumerated dimension: subsets of size <= %d of a palette of 12 literals (incl. escaped quote/backslash) and 11 patterns chosen overlapping, nested, prefix-related, identical-language and disjoint; literals randomly declared as named tokens or used inline (VERIF_SEED)' % (4 if thorough else 3),
            'solver dimension: all words <= %d (winner and conflict queries against span-matrix denotations); plus, without length bound, a labelled bisimulation step against the product of independently built reference automata' % L,
            'patterns containing "/" are not generated (they cannot be written between slashes)',
        ]
