#!/bin/sh
# usage: runseed.sh <patch> <prop>...
P=$1; shift
WT=/tmp/sv_manual_$$; OUT=/tmp/sv_manual_out_$$
git -C /repo worktree add -q --detach $WT HEAD && git -C $WT apply $P
mkdir -p $OUT/evidence $OUT/replays
for p in "$@"; do VERIF_REPO=$WT VERIF_EVIDENCE_DIR=$OUT/evidence VERIF_REPLAYS_DIR=$OUT/replays /verif/check $p quick 2>&1 | grep -E "^(OK|VIOLATION|INCONCLUSIVE|  )" | cut -c1-400 | head -n 6; echo "exit-of-$p done"; done
git -C /repo worktree remove --force $WT; rm -rf $OUT
