"""C09: a pattern is accepted only as a whole sentence of the documented pattern grammar."""
import os

from common import *

REL = 'internal/regex/parser/nfa'
PKG = MODULE + '/' + REL
HDIR = os.path.join(HARNESS, REL)


def files(sc, n, fn=None, only=-1):
    fs = [os.path.join(HDIR, f) for f in sorted(os.listdir(HDIR)) if f.startswith('zz_verif_') and f.endswith('.go') and not f.endswith('_test.go')]
    par = sc.path('zz_verif_params.go')
    with open(par, 'w') as f:
        f.write('//go:build verif\n\npackage nfa\n\nconst c09N = %d\nconst c09FrameN = %d\nconst c09FrameOnly = %d\n' % (n, fn if fn is not None else n, only))
    return fs + [par]


def cfg(fs, entry, tier, **kw):
    c = {'patterns': ['./' + REL], 'pkg': PKG, 'overlay': overlay_map(REL, fs), 'entry': entry,
         'init_pkgs': [PKG, MODULE + '/internal/regex/parser', MODULE + '/internal/verif', 'github.com/moorara/algo/parser/combinator', 'io'],
         'opaque_pkgs': ['github.com/moorara/algo/automata'], 'max_violations': 30,
         'cross': ['cvc5', 'z3'] if tier == 'thorough' else []}
    c.update(kw)
    return c


def handle(rep, res, fs, sc, prop='C09'):
    seen = {}
    n = 0
    for v in res.get('violations') or []:
        key = (v['harness'], v['msg'][:70])
        seen[key] = seen.get(key, 0) + 1
        if seen[key] > 1 or n >= 8:
            continue
        n += 1
        outcome, out = native_replay(REL, 'nfa', fs, v['harness'], v['inputs'], sc)
        rep.coverage['traces_validated_against_impl'] = rep.coverage.get('traces_validated_against_impl', 0) + 1
        text = ''.join(chr(i['value']) for i in (v['inputs'] or []) if i['kind'] == 'byte')
        what = '%s: %s [pattern %r] native=%s' % (v['harness'], v['msg'], text, outcome)
        if outcome.startswith('assert-failed') or outcome.startswith('panic'):
            rep.violation(what, {'harness': v['harness'], 'pkg': REL, 'inputs': v['inputs'], 'pattern': text, 'msg': v['msg'], 'native': outcome})
        else:
            rep.inconc('counterexample did not reproduce natively: ' + what)


def run(tier, rep):
    thorough = tier == 'thorough'
    N = 4  # 5 characters took 2.4 h on this machine; the thorough tier adds the cross-solver runs and longer frames
    with Scratch() as sc:
        FN = 4  # 5 exceeded the memory bound of a path on this machine
        fs = files(sc, N, FN)
        res = run_gosym(cfg(fs, 'harnessC09Whole', tier), sc, 'whole', timeout=6 * 3600)
        merge_gosym(rep, res, 'nfa.Parse + real combinator parser on every printable-ASCII text of <= %d characters: accepted => whole text is a sentence of the documented grammar' % N)
        handle(rep, res, fs, sc)
        res = run_gosym(cfg(fs, 'harnessC09Framed', tier, opaque=[PKG + '.runesToNFA', PKG + '.runeRangesToNFA', PKG + '.containsRune', PKG + '.includesRune', PKG + '.quantifyNFA']), sc, 'framed', timeout=6 * 3600)
        merge_gosym(rep, res, 'the same on 12 fixed frames (\\p{..}, [[:..:]], a{..}, \\x.., groups) around every printable-ASCII text of <= %d characters (names of categories and classes: <= %d letters)' % (FN, FN + 1))
        handle(rep, res, fs, sc)
        res = run_gosym(cfg(fs, 'harnessC09Meaningless', tier), sc, 'meaningless')
        merge_gosym(rep, res, 'descending ranges [x-y], [^x-y] and repetition ranges a{n,m}: accepted iff meaningful, error names the problem')
        handle(rep, res, fs, sc)
        rep.assumptions += [
            'the automaton constructors of github.com/moorara/algo/automata are opaque (zero results): the mappers\' control flow and error accumulation do not depend on automaton contents; languages are the subject of C02/C10',
            'in the framed harness the automaton-building helpers of the nfa package (runesToNFA, runeRangesToNFA, containsRune, includesRune: loops over the Unicode tables) are opaque too; acceptance and error accumulation do not depend on their results',
            'reference: a character-level recogniser of the documented pattern grammar written as Boolean terms over the symbolic text (harness/internal/regex/parser/nfa/zz_verif_c09.go)',
            'the clause "every pattern written with the documented constructs in their unambiguous forms is accepted" is decided on the canonical prints of the C02/C10 corpora (a rejected corpus pattern is reported there)',
            'range ends are split into concrete cases by the solver over the windows 5..> and a..h (the mappers branch on every group member); repetition bounds are single digits 0..4',
            'bound: texts of <= %d characters over 0x20..0x7E; the direct-construction entry point (regex/parser/ast.Parse) shares the combinator parser and the same Remaining check and is exercised by C10' % N,
        ]
