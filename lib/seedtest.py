#!/usr/bin/env python3
"""Confirms a seeded breaking change and runs checks against it.

usage: seedtest.py <seed name> <seed dir (patch.diff, demo_test.go, NOTES.md)> <property ids to check, comma separated> [tier]

1. in a scratch worktree of /repo HEAD: the demonstration passes without the patch; with the patch the tree
   builds, the existing suite passes, and the demonstration fails;
2. the patch is applied to /repo, the listed checks are run, and the patch is reverted;
3. everything is recorded under /verif/seeded/<seed name>/."""
import json
import os
import re
import shutil
import subprocess
import sys
import time

sys.path.insert(0, os.path.dirname(os.path.abspath(__file__)))
from common import REPO, VERIF, go_env


def sh(cmd, cwd, timeout=3600):
    p = subprocess.run(cmd, cwd=cwd, env=go_env(), shell=isinstance(cmd, str), stdout=subprocess.PIPE, stderr=subprocess.STDOUT, text=True, timeout=timeout)
    return p.returncode, p.stdout


def main():
    name, sdir, props = sys.argv[1], sys.argv[2], sys.argv[3].split(',')
    tier = sys.argv[4] if len(sys.argv) > 4 else 'quick'
    demo = [f for f in os.listdir(sdir) if f.startswith('demo')][0]
    head = open(os.path.join(sdir, demo)).read(3000)
    place = re.search(r'PLACE[^\n]*?AT:\s*(\S+)', head).group(1)
    run = re.search(r"-run '?([A-Za-z0-9_]+)'?\s+(\./\S+)", head)
    runpat, pkg = run.group(1), run.group(2)
    meta = {'seed': name, 'properties_targeted': props, 'source': sdir, 'demo_place': place, 'demo_run': 'go test -vet=off -count=1 -run %s %s' % (runpat, pkg), 'ran': []}
    wt = '/tmp/sv_' + name
    sh(['git', '-C', REPO, 'worktree', 'remove', '--force', wt], REPO)
    rc, out = sh(['git', '-C', REPO, 'worktree', 'add', '--detach', wt, 'HEAD'], REPO)
    try:
        shutil.copy(os.path.join(sdir, demo), os.path.join(wt, place))
        rc, out = sh(['go', 'test', '-vet=off', '-count=1', '-run', runpat, pkg], wt)
        meta['demo_without_patch'] = 'pass' if rc == 0 else 'FAIL'
        meta['ran'].append('unpatched: demo -> %s' % meta['demo_without_patch'])
        os.remove(os.path.join(wt, place))
        rc, out = sh(['git', 'apply', os.path.join(os.path.abspath(sdir), 'patch.diff')], wt)
        meta['patch_applies'] = rc == 0
        rc, out = sh(['go', 'build', './...'], wt)
        meta['builds'] = rc == 0
        rc, out = sh('go test -vet=off -count=1 ./... 2>&1 | grep -v "^ok\\|no test files"', wt)
        meta['existing_suite_with_patch'] = 'pass' if out.strip() == '' else 'FAIL: ' + out[-400:]
        shutil.copy(os.path.join(sdir, demo), os.path.join(wt, place))
        rc, out = sh(['go', 'test', '-vet=off', '-count=1', '-run', runpat, pkg], wt)
        meta['demo_with_patch'] = 'fail (as required)' if rc != 0 else 'PASSES (seed not confirmed)'
        meta['ran'].append('patched: build %s, suite %s, demo %s' % (meta['builds'], meta['existing_suite_with_patch'][:4], meta['demo_with_patch']))
    finally:
        sh(['git', '-C', REPO, 'worktree', 'remove', '--force', wt], REPO)
    confirmed = meta.get('demo_without_patch') == 'pass' and meta.get('builds') and meta.get('existing_suite_with_patch') == 'pass' and meta.get('demo_with_patch', '').startswith('fail')
    meta['confirmed'] = bool(confirmed)
    # run the checks against a scratch worktree with the patch applied (VERIF_REPO points the checks at it;
    # evidence and replay files of these runs go to a scratch directory, /repo and /verif/evidence stay untouched)
    meta['checks'] = {}
    wt2 = '/tmp/sv_chk_' + name
    out_dir = '/tmp/sv_out_' + name
    sh(['git', '-C', REPO, 'worktree', 'remove', '--force', wt2], REPO)
    shutil.rmtree(out_dir, ignore_errors=True)
    os.makedirs(os.path.join(out_dir, 'evidence'))
    os.makedirs(os.path.join(out_dir, 'replays'))
    sh(['git', '-C', REPO, 'worktree', 'add', '--detach', wt2, 'HEAD'], REPO)
    rc, out = sh(['git', 'apply', os.path.join(os.path.abspath(sdir), 'patch.diff')], wt2)
    try:
        for p in props:
            t0 = time.time()
            env = go_env()
            env.update({'VERIF_REPO': wt2, 'VERIF_EVIDENCE_DIR': os.path.join(out_dir, 'evidence'), 'VERIF_REPLAYS_DIR': os.path.join(out_dir, 'replays')})
            pr = subprocess.run([os.path.join(VERIF, 'check'), p, tier], cwd=VERIF, env=env, stdout=subprocess.PIPE, stderr=subprocess.STDOUT, text=True, timeout=4 * 3600)
            rc, out = pr.returncode, pr.stdout
            lines = [l for l in out.splitlines() if l.startswith('VIOLATION') or l.startswith('INCONCLUSIVE') or l.startswith('OK ')]
            detail = [l.strip()[:300] for l in out.splitlines() if l.startswith('  ')][:3]
            meta['checks'][p] = {'exit': rc, 'caught': rc == 1, 'lines': lines[:4], 'detail': detail, 'wall_s': round(time.time() - t0, 1), 'tier': tier}
            print(name, p, 'exit', rc, lines[:2], detail[:1])
    finally:
        sh(['git', '-C', REPO, 'worktree', 'remove', '--force', wt2], REPO)
        shutil.rmtree(out_dir, ignore_errors=True)
    dst = os.path.join(VERIF, 'seeded', name)
    os.makedirs(dst, exist_ok=True)
    shutil.copy(os.path.join(sdir, 'patch.diff'), dst)
    shutil.copy(os.path.join(sdir, demo), os.path.join(dst, demo + '.txt'))
    if os.path.exists(os.path.join(sdir, 'NOTES.md')):
        shutil.copy(os.path.join(sdir, 'NOTES.md'), dst)
    notes = open(os.path.join(sdir, 'NOTES.md')).read() if os.path.exists(os.path.join(sdir, 'NOTES.md')) else ''
    meta['needs_to_manifest'] = notes[:1500]
    with open(os.path.join(dst, 'meta.json'), 'w') as f:
        json.dump(meta, f, indent=1)
    print(json.dumps({k: meta[k] for k in ('confirmed', 'demo_without_patch', 'existing_suite_with_patch', 'demo_with_patch')}))
    return 0


if __name__ == '__main__':
    sys.exit(main())
