"""C14: no input crashes or hangs emerge; failures are errors and clean non-zero exits.

Every gosym harness turns a reachable panic, a failed type assertion, an index error, a nil dereference
or an exhausted step budget into a finding.  This check runs the entry points on arbitrary inputs:
  (a) the scanner and its reader on arbitrary bytes (invalid UTF-8 and NUL included);
  (b) the typed-tree actions (ast.Parse) and (b2) the whole spec.Parse (all semantic actions, symbol
      table, verification) on every token sequence up to a bound;
  (c) the pattern compiler on arbitrary strings (control characters, the empty string);
  (e) the command line: main.main, Command.Run and Generate against an arbitrary environment."""
import os

import re
import subprocess
import time

from common import *
import lr
import c05
import c09
import c11
import c16
import ebnf_tokens


HEX = ['0000', '0001', '007F', '0080', 'FFFF', '00010000', '0010FFFF', '00110000', '7FFFFFFF', '80000000', 'FFFFFFFF', 'FFFFFF00']


def extreme_patterns():
    out = []
    for h in HEX:
        out += ['\\x' + h, 'a\\x' + h + '+', '[\\x' + h + ']', '[^a\\x' + h + ']', '[a-\\x' + h + ']']
    for lo, hi in [('0001', '0010FFFF'), ('0001', '7FFFFFFF'), ('0000', '7FFFFFFF'), ('00110000', '00110005'), ('0010FFFE', '00110001'), ('7FFFFFF0', '7FFFFFFF'),
                   ('80000000', '80000005'), ('FFFFFFF0', 'FFFFFFFF'), ('0100', '00010000')]:
        out += ['[\\x%s-\\x%s]' % (lo, hi), '[^\\x%s-\\x%s]' % (lo, hi)]
    out += ['a{0,999}', 'a{999}', '(a{9}){9}', '[[:ascii:]]{50}', '\\p{L}{3}', '[^\\p{L}]']
    return out


def extremes(rep, sc, limit_s=120, limit_mb=8000):
    """Auxiliary, not solver-decided: every boundary pattern through the real nfa.Parse + ToDFA natively."""
    import resource
    import c09
    ov = overlay_map(c09.REL, [os.path.join(c09.HDIR, 'zz_verif_extreme_test.go')])
    op = sc.path('overlay_extreme.json')
    import json
    with open(op, 'w') as f:
        json.dump({'Replace': ov}, f)
    binp = sc.path('extreme.test')
    p = subprocess.run(['go', 'test', '-tags', 'verif', '-vet=off', '-overlay', op, '-c', '-o', binp, './' + c09.REL], cwd=REPO, env=go_env(),
                       stdout=subprocess.PIPE, stderr=subprocess.STDOUT, text=True, timeout=900)
    if p.returncode != 0 or not os.path.exists(binp):
        rep.inconc('extreme-pattern driver does not build: ' + p.stdout[-400:])
        return
    pats = extreme_patterns()
    known = {k['tag']: k for k in open_findings('C14')}
    counts = {'ok': 0, 'rejected': 0, 'bad': 0}
    t0 = time.time()

    def limits():
        resource.setrlimit(resource.RLIMIT_AS, (limit_mb * 1024 * 1024, limit_mb * 1024 * 1024))
    shown = 0
    for pat in pats:
        env = go_env()
        env['VERIF_PATTERN'] = pat
        try:
            pr = subprocess.run([binp, '-test.run', '^TestVerifExtreme$', '-test.timeout', '0'], env=env, stdout=subprocess.PIPE, stderr=subprocess.STDOUT, text=True,
                                timeout=limit_s, preexec_fn=limits, cwd=sc.path(''))
            out = pr.stdout
        except subprocess.TimeoutExpired:
            out = 'TIMEOUT after %d s' % limit_s
        m = re.search(r'VERIF-EXTREME (OK|ERR|NIL|PANIC)(.*)', out)
        if m and m.group(1) == 'OK':
            counts['ok'] += 1
        elif m and m.group(1) == 'ERR':
            counts['rejected'] += 1
        else:
            counts['bad'] += 1
            what = 'pattern %r: %s' % (pat, (m.group(0) if m else ('out of memory (limit %d MiB)' % limit_mb if 'out of memory' in out else out.strip()[-200:]))[:200])
            if shown < 4:
                shown += 1
                rep.violation('compiling a pattern crashes, hangs or exhausts memory instead of returning an error: ' + what, {'pattern': pat, 'output': out[-600:], 'kind': 'extreme'})
    os.remove(binp)
    rep.coverage['extreme_patterns'] = {'patterns': len(pats), 'seconds': round(time.time() - t0, 1), 'limit_seconds': limit_s, 'limit_mib': limit_mb, **counts}
    rep.assumptions.append('auxiliary, not solver-decided: %d boundary patterns (hexadecimal escapes at 0, 7F/80, FFFF/10000, 10FFFF/110000, 7FFFFFFF/80000000, FFFFFFFF alone, in groups and as range ends; large repetition counts) each compiled natively in its own process under a %d s / %d MiB limit' % (len(pats), limit_s, limit_mb))


def run(tier, rep):
    thorough = tier == 'thorough'
    with Scratch() as sc:
        # (a)
        N = 3
        ref = ebnf_tokens.reference_dfa()
        files = c05.scan_files(sc, ref, [(0, 0)], c14N=N)
        res = run_gosym(c05.base_cfg(files, 'harnessC14Scan', tier, concretize=[c05.PKG + '.advanceDFA']), sc, 'scan', timeout=4 * 3600)
        merge_gosym(rep, res, '(a) lexer.New/NextToken/reader on every byte string of <= %d bytes (0x00..0xFF): terminates with a token, an error or end of input' % N)
        c05.handle_violations(rep, res, files, sc, prop='C14')
        # (b) typed-tree actions
        K = 8 if thorough else 7
        afs, extra = lr.ast_files(sc, astK=K)
        res = run_gosym(lr.ast_cfg(afs, extra, 'harnessC11Typed', tier), sc, 'typed', timeout=4 * 3600)
        merge_gosym(rep, res, '(b) ast.Parse with its real actions on every token sequence of <= %d tokens: no panic, no success with a nil result' % K)
        c11.handle_ast(rep, res, afs, extra, sc, 'C14')
        # (b2) the whole spec.Parse
        KS = 7
        sfs, extra = lr.spec_files(sc, specK=KS)
        res = run_gosym(lr.spec_cfg(sfs, extra, 'harnessC14SpecTokens', tier), sc, 'spec', timeout=4 * 3600)
        merge_gosym(rep, res, '(b2) spec.Parse (all semantic actions, symbol table, Verify) on every token sequence of <= %d tokens' % KS)
        for v in (res.get('violations') or [])[:4]:
            outcome, out = native_replay(lr.SPEC_REL, 'spec', sfs, v['harness'], v['inputs'], sc, extra_overlay=extra)
            rep.coverage['traces_validated_against_impl'] = rep.coverage.get('traces_validated_against_impl', 0) + 1
            what = '%s: %s [%s] inputs=%s native=%s' % (v['harness'], v['msg'], v['pos'][:160], [(i['name'], i['value']) for i in v['inputs'] or []][:12], outcome)
            if outcome.startswith('assert-failed') or outcome.startswith('panic'):
                rep.violation(what, {'harness': v['harness'], 'pkg': lr.SPEC_REL, 'inputs': v['inputs'], 'msg': v['msg'], 'native': outcome})
            else:
                rep.inconc('counterexample did not reproduce natively: ' + what)
        # (c)
        NP = 3
        fs = c09.files(sc, NP)
        res = run_gosym(c09.cfg(fs, 'harnessC14Pattern', tier, opaque_pkgs=['math/rand'], max_steps=80000000,
                                init_pkgs=[c09.PKG, MODULE + '/internal/regex/parser', MODULE + '/internal/verif', 'github.com/moorara/algo/...', 'io']), sc, 'pattern', timeout=4 * 3600)
        merge_gosym(rep, res, '(c) nfa.Parse and ToDFA with the real automata library on every string of <= %d bytes in 0x01..0x7F and the empty string' % NP)
        c09.handle(rep, res, fs, sc, prop='C14')
        # (d) boundary members of the documented escape forms, each in a process of its own under a time and memory limit
        extremes(rep, sc)
        # (e)
        c16.run_part(rep, sc, tier)
        rep.assumptions += [
            'bounds: %d input bytes, %d/%d tokens, %d pattern bytes; the command line against the environment model of C16' % (N, K, KS, NP),
            'pattern bytes >= 0x80 are not symbolic (the engine converts symbolic strings to runes only when ASCII); non-ASCII patterns are exercised concretely by the C02 corpus (bracket groups beyond ASCII)',
            '"never returns success with a nil result" is asserted at each entry point; the pattern harness of this check runs the real automata library (github.com/moorara/algo/automata) under the interpreter',
            'hangs: a path that exhausts the step budget is reported as UNWIND (inconclusive), never as a pass',
        ]
