"""C14: no input crashes or hangs emerge; failures are errors and clean non-zero exits.

Every gosym harness turns a reachable panic, a failed type assertion, an index error, a nil dereference
or an exhausted step budget into a finding.  This check runs the entry points on arbitrary inputs:
  (a) the scanner and its reader on arbitrary bytes (invalid UTF-8 and NUL included);
  (b) the typed-tree actions (ast.Parse) and (b2) the whole spec.Parse (all semantic actions, symbol
      table, verification) on every token sequence up to a bound;
  (c) the pattern compiler on arbitrary strings (control characters, the empty string);
  (e) the command line: main.main, Command.Run and Generate against an arbitrary environment."""
import os

from common import *
import lr
import c05
import c09
import c11
import c16
import ebnf_tokens


def run(tier, rep):
    thorough = tier == 'thorough'
    with Scratch() as sc:
        # (a)
        N = 4 if thorough else 3
        ref = ebnf_tokens.reference_dfa()
        files = c05.scan_files(sc, ref, [(0, 0)], c14N=N)
        res = run_gosym(c05.base_cfg(files, 'harnessC14Scan', tier, concretize=[c05.PKG + '.advanceDFA']), sc, 'scan', timeout=4 * 3600)
        merge_gosym(rep, res, '(a) lexer.New/NextToken/reader on every byte string of <= %d bytes (0x00..0xFF): terminates with a token, an error or end of input' % N)
        c05.handle_violations(rep, res, files, sc, prop='C14')
        # (b) typed-tree actions
        K = 8 if thorough else 7
        afs, extra = lr.ast_files(sc, astK=K)
        res = run_gosym(lr.ast_cfg(afs, extra, 'harnessC11Typed', tier), sc, 'typed', timeout=4 * 3600)
        merge_gosym(rep, res, '(b) ast.Parse with its real actions on every token sequence of <= %d tokens: no panic, no success with a nil result' % K)
        c11.handle_ast(rep, res, afs, extra, sc, 'C14')
        # (b2) the whole spec.Parse
        KS = 8 if thorough else 7
        sfs, extra = lr.spec_files(sc, specK=KS)
        res = run_gosym(lr.spec_cfg(sfs, extra, 'harnessC14SpecTokens', tier), sc, 'spec', timeout=4 * 3600)
        merge_gosym(rep, res, '(b2) spec.Parse (all semantic actions, symbol table, Verify) on every token sequence of <= %d tokens' % KS)
        for v in (res.get('violations') or [])[:4]:
            outcome, out = native_replay(lr.SPEC_REL, 'spec', sfs, v['harness'], v['inputs'], sc, extra_overlay=extra)
            rep.coverage['traces_validated_against_impl'] = rep.coverage.get('traces_validated_against_impl', 0) + 1
            what = '%s: %s [%s] inputs=%s native=%s' % (v['harness'], v['msg'], v['pos'][:160], [(i['name'], i['value']) for i in v['inputs'] or []][:12], outcome)
            if outcome.startswith('assert-failed') or outcome.startswith('panic'):
                rep.violation(what, {'harness': v['harness'], 'pkg': lr.SPEC_REL, 'inputs': v['inputs'], 'msg': v['msg'], 'native': outcome})
            else:
                rep.inconc('counterexample did not reproduce natively: ' + what)
        # (c)
        NP = 4 if thorough else 3
        fs = c09.files(sc, NP)
        res = run_gosym(c09.cfg(fs, 'harnessC14Pattern', tier, opaque_pkgs=['math/rand'], max_steps=80000000,
                                init_pkgs=[c09.PKG, MODULE + '/internal/regex/parser', MODULE + '/internal/verif', 'github.com/moorara/algo/...', 'io']), sc, 'pattern', timeout=4 * 3600)
        merge_gosym(rep, res, '(c) nfa.Parse and ToDFA with the real automata library on every string of <= %d bytes in 0x01..0x7F and the empty string' % NP)
        c09.handle(rep, res, fs, sc, prop='C14')
        # (e)
        c16.run_part(rep, sc, tier)
        rep.assumptions += [
            'bounds: %d input bytes, %d/%d tokens, %d pattern bytes; the command line against the environment model of C16' % (N, K, KS, NP),
            'pattern bytes >= 0x80 are not symbolic (the engine converts symbolic strings to runes only when ASCII); non-ASCII patterns are exercised concretely by the C02 corpus (bracket groups beyond ASCII)',
            '"never returns success with a nil result" is asserted at each entry point; the pattern harness of this check runs the real automata library (github.com/moorara/algo/automata) under the interpreter',
            'hangs: a path that exhausts the step budget is reported as UNWIND (inconclusive), never as a pass',
        ]
