"""Emission: run the real generator on a corpus of specifications (native driver), then treat each
emitted package as a program of its own: build it with the standard library only, and load it into
gosym with harness files."""
import json
import os
import shutil
import subprocess

from common import *
import gogen

GEN_REL = 'internal/generate/golang'
DRIVER = os.path.join(HARNESS, GEN_REL, 'zz_verif_emit_test.go')
FIXTURES = os.path.join(REPO, 'internal/ebnf/fixture')


def specs(tier):
    """(name, text) of the emission corpus.  Every specification names its package pNN."""
    out = []

    def add(body):
        n = 'p%02d' % len(out)
        out.append((n, 'grammar %s;\n%s' % (n, body)))
    add('ID = /[a-z]+/;\nNUM = /[0-9]+/;\nstart = "if" ID | NUM ";";\n')
    add('WS = /[ \\x09]+/;\nEOL = /[\\x0A\\x0D]+/;\nID = $ID;\nNUM = $NUMBER;\nstart = ID "=" NUM;\n')
    add('COMMENT = /#[\\x20-\\x7E]*/;\nWS = $WS;\nSTR = $STRING;\nstart = STR | "+" STR;\n')
    add('QQ = /\'[a-z]\'/;\nstart = QQ "\'" | "x";\n')                       # single quote in pattern and literal
    add('start = "\\"" "a" | "\\\\" "b";\n')                               # escaped quote / backslash literals
    add('BS = /\\\\[a-z]/;\nstart = BS | "c";\n')                         # backslash symbol in a pattern
    add('TT = /[\\x09\\x0A]x/;\nstart = TT;\n')                              # control characters as symbols
    add('UU = /\\x00E9+/;\nVV = /[\\x00E0\\x00E9]z/;\nstart = UU | VV;\n')     # non-ASCII symbols
    add('EE = /\\x20AC|\\x00010348/;\nstart = EE "!";\n')                    # 3-byte and 4-byte code points
    add('KW = /i[f]/;\nstart = "if" | KW "x";\n')                           # a terminal that ends up owning no state
    add('AA = /a+/;\nBB = /b*c/;\nCC = /[a-c]{2,3}x/;\nstart = AA BB | CC;\n')
    add('ID = /[A-Za-z_][0-9A-Za-z_]*/;\nstart = "func" ID "(" ")" | "for" ID | "fo" | ID;\n')
    add('@left "+";\n@left "*";\nNN = /[0-9]+/;\nstart = start "+" start | start "*" start | "(" start ")" | NN;\n')
    add('DD = /\\d+/;\nWW = /\\w+-/;\nstart = DD | WW;\n')
    add('XX = /\\.\\*\\+\\?/;\nYY = /\\(\\)\\[\\]\\{\\}\\|\\$/;\nstart = XX | YY;\n')
    add('TT = /\\x7E\\x21/;\nstart = TT "~" | "`";\n')
    add('AA = /i(f|n)/;\nID = /[a-z]+/;\nNUM = /[0-9]+/;\nstart = "if" "in" AA ID NUM;\n')   # a terminal owning no state in the middle of the definition order
    add('ID = /[a-z]+/;\nNL = /\\x0A/;\nSP = / =/;\nstart = ID NL | ID SP ID;\n')   # tokens (not skipped) that begin with a line terminator or a space
    if tier == 'thorough':
        for f in sorted(os.listdir(FIXTURES)):
            if f.endswith('.grammar'):
                txt = open(os.path.join(FIXTURES, f)).read()
                n = 'p%02d' % len(out)
                import re
                txt2, k = re.subn(r'^(\s*grammar\s+)[a-z][0-9a-z_]*', r'\g<1>' + n, txt, count=1, flags=re.M)
                if k == 1:
                    out.append((n, txt2))
    return out


def emit_all(corp, sc):
    """Runs the generator; returns list of dicts with driver output + package dir."""
    root = sc.path('emitted')
    os.makedirs(root, exist_ok=True)
    jobs = []
    for i, (name, text) in enumerate(corp):
        d = os.path.join(root, 'job%02d' % i)
        os.makedirs(d)
        jobs.append({'id': i, 'text': text, 'dir': d})
    jp, op = sc.path('emit.in'), sc.path('emit.out')
    with open(jp, 'w') as f:
        for j in jobs:
            f.write(json.dumps(j) + '\n')
    rc, out = run_native_test(GEN_REL, [DRIVER], '^TestVerifEmit$', sc, env_extra={'VERIF_JOBS': jp, 'VERIF_OUT': op})
    res = [None] * len(corp)
    if os.path.exists(op):
        for line in open(op):
            o = json.loads(line)
            o['pkgdir'] = os.path.join(jobs[o['id']]['dir'], corp[o['id']][0])
            o['text'] = corp[o['id']][1]
            o.setdefault('name', corp[o['id']][0])
            res[o['id']] = o
    if any(r is None for r in res):
        raise RuntimeError('emission driver failed:\n' + out[-2000:])
    return res


def build_emitted(pkgdir, sc):
    """go build + go vet of the emitted package as a module of its own (standard library only)."""
    with open(os.path.join(pkgdir, 'go.mod'), 'w') as f:
        f.write('module emitted\n\ngo 1.24.0\n')
    env = go_env()
    env['GOFLAGS'] = '-mod=mod'
    p = subprocess.run(['go', 'vet', './...'], cwd=pkgdir, env=env, stdout=subprocess.PIPE, stderr=subprocess.STDOUT, text=True, timeout=600)
    return p.returncode, p.stdout


HARNESS_TMPL = """//go:build verif

package %(pkg)s

import (
	"io"

	"emitted/verif"
)

// Generated on every run from the token automaton the same specification yields (Spec.DFA of the
// current tree): refDelta / refOwner / refMax.

%(ref)s

type memReader struct {
	data []byte
	off  int
}

func (r *memReader) Read(p []byte) (int, error) {
	if r.off >= len(r.data) {
		return 0, io.EOF
	}
	n := copy(p, r.data[r.off:])
	r.off += n
	return n, nil
}

// harnessEmittedTables: the emitted transition function and accepting-state table are extensionally
// the token automaton: same next state for every (state, character) over all integers and all int32
// runes, same terminal for every accepting state, nothing for any other state.
func harnessEmittedTables() {
	var s int
	if verif.Pick("range", 2) == 0 {
		s = verif.Concretize(verif.IntRange("s", -2, refMax+2))
	} else {
		s = verif.Int("s")
		verif.Assume(verif.Or(s < -2, s > refMax+2))
	}
	r := verif.Rune("r")
	verif.Reach("delta")
	verif.Assert(advanceDFA(s, r) == refDelta(s, r), "the emitted transition function differs from the token automaton in state "+itoaV(s))
	l, err := New("f", &memReader{data: []byte("x")})
	verif.Assert(err == nil, "the emitted lexer cannot be constructed")
	if err != nil {
		return
	}
	tok := l.evalDFA(s)
	want := refOwner(s)
	verif.Reach("owner")
	verif.Assert(string(tok.Terminal) == want, "the emitted accepting-state table gives state "+itoaV(s)+" to "+string(tok.Terminal)+", the token automaton to "+want)
}

func itoaV(n int) string {
	if verif.IsSymbolic(n) {
		return "<outside the state range>"
	}
	if n == 0 {
		return "0"
	}
	neg := n < 0
	if neg {
		n = -n
	}
	s := ""
	for n > 0 {
		s = string(rune('0'+n%%10)) + s
		n /= 10
	}
	if neg {
		s = "-" + s
	}
	return s
}
"""


def gen_harness(o, sc, extra=''):
    """Writes the harness file for one emitted package; returns overlay map (virtual -> real)."""
    import tvsmt
    auto = tvsmt.Auto(o['dfa'])

    class D:
        pass
    d = D()
    d.n = (max(auto.states) + 1) if auto.states else 1
    d.trans = auto.rows
    d.label = {}
    owner = {}
    for t, ss in (o.get('term_map') or {}).items():
        for q in ss:
            owner[q] = t
    ref = gogen.gen_delta('refDelta', d)
    ref += '\nconst refMax = %d\n\nfunc refOwner(q int) string {\n\tswitch q {\n' % (d.n - 1)
    for q, t in sorted(owner.items()):
        ref += '\tcase %d:\n\t\treturn %s\n' % (q, gogen.go_str(t))
    ref += '\t}\n\treturn "ERR"\n}\n'
    name = o['name']
    hp = sc.path('zz_verif_emitted_%s.go' % name)
    with open(hp, 'w') as f:
        f.write(HARNESS_TMPL % {'pkg': name, 'ref': ref} + extra)
    return {os.path.join(o['pkgdir'], 'zz_verif_emitted.go'): hp,
            os.path.join(o['pkgdir'], 'verif', 'verif.go'): os.path.join(HARNESS, 'verif', 'verif.go')}, hp


C19_EXTRA = """
// ---- C19: the emitted NextToken loop over the emitted reader vs the token automaton ---------------

type refTokE struct {
	kind             string // "" marks the lexical error that ends the stream
	start, end       int    // byte span
	line, col, runes int    // position of the first character; runes = characters before it
	ascii            bool   // every character before it is ASCII (byte offset == character offset)
}

func isSkipped(name string) bool { return name == "WS" || name == "EOL" || name == "COMMENT" }

// decodeAt: symbolic bytes are assumed ASCII by the harness; concrete bytes may be multi-byte UTF-8.
func decodeAt(text []byte, i int) (rune, int) {
	if text[i] < 0x80 {
		return rune(text[i]), 1
	}
	return utf8.DecodeRune(text[i:])
}

// refScanE tokenises text as the documentation prescribes for the emitted lexer: longest run of the
// token automaton from each start; the owner of the state reached (terminals named WS, EOL, COMMENT
// are skipped); a space, tab or line terminator that no token matches is discarded; anything else
// is a lexical error at the start of the run.
func refScanE(text []byte) []refTokE {
	var out []refTokE
	pos, line, col, runes, ascii := 0, 1, 1, 0, true
	advance := func(from, to int) {
		for j := from; j < to; {
			r, size := decodeAt(text, j)
			if r == 10 {
				line++
				col = 1
			} else {
				col++
			}
			if size > 1 {
				ascii = false
			}
			runes++
			j += size
		}
	}
	for pos < len(text) {
		q, i := 0, pos
		for i < len(text) {
			r, size := decodeAt(text, i)
			q2 := verif.Concretize(refDelta(q, r))
			if q2 == -1 {
				break
			}
			q = q2
			i += size
		}
		own := refOwner(q)
		if own == "ERR" {
			if i == pos {
				c := text[pos]
				if c == 32 || c == 9 || c == 10 || c == 13 {
					advance(pos, pos+1)
					pos++
					continue
				}
			}
			out = append(out, refTokE{kind: "", start: pos, end: i, line: line, col: col, runes: runes, ascii: ascii})
			return out
		}
		if !isSkipped(own) {
			out = append(out, refTokE{kind: own, start: pos, end: i, line: line, col: col, runes: runes, ascii: ascii})
		}
		advance(pos, i)
		pos = i
	}
	return out
}

func checkStreamE(l *Lexer, text []byte, exp []refTokE, what string) {
	for k := 0; k <= len(exp); k++ {
		tok, err := l.NextToken()
		if k == len(exp) {
			verif.Reach("stream-end")
			verif.Assert(err == io.EOF, what+": after the last token the emitted lexer must report end of input")
			return
		}
		e := exp[k]
		if e.kind == "" {
			verif.Reach("lexical-error")
			verif.Assert(err != nil && err != io.EOF, what+": text that no token matches must be a lexical error")
			if err == nil || err == io.EOF {
				return
			}
			want := "f:" + itoaV(e.line) + ":" + itoaV(e.col)
			verif.Assert(strings.Contains(err.Error(), want), what+": the lexical error must name the position of the offending text ("+want+")")
			return
		}
		if err != nil {
			verif.Fail(what + ": the emitted lexer fails or stops where the token automaton defines a token of kind " + e.kind)
			return
		}
		verif.Reach("token")
		verif.Assert(string(tok.Terminal) == e.kind, what+": wrong terminal, the token automaton says "+e.kind)
		verif.Assert(tok.Lexeme == verif.String(text[e.start:e.end]), what+": the lexeme of "+e.kind+" is not its source text")
		verif.Assert(tok.Pos.Filename == "f" && tok.Pos.Line == e.line && tok.Pos.Column == e.col, what+": line/column of "+e.kind+" are not those of its first character")
		if e.ascii {
			verif.Assert(tok.Pos.Offset == e.start, what+": offset of "+e.kind+" is not that of its first character")
		}
	}
}

// harnessEmittedScan: concrete padding (alignment sweep of the 4096-byte halves) + scanN arbitrary
// ASCII bytes + a concrete tail (which may contain multi-byte characters), through the emitted New,
// NextToken, evalDFA and reader.
func harnessEmittedScan() {
	pad := scanPads[verif.Pick("pad", len(scanPads))]
	ti := verif.Pick("tail", len(scanTails))
	tail := scanTails[ti]
	// a shortest text leading the token automaton into one of its states (every state in turn; only without padding)
	hi := verif.Pick("head", len(scanHeads))
	if pad != 0 || ti != 0 {
		verif.Assume(hi == 0) // heads only without padding and with the first tail
	}
	head := scanHeads[hi]
	n := verif.Len("n", 0, scanN)
	sym := verif.Bytes("b", n)
	for i := range sym {
		verif.Assume(verif.And(sym[i] >= 1, sym[i] <= 0x7F))
	}
	text := make([]byte, 0, pad+n+len(tail)+len(head))
	for i := 0; i < pad; i++ {
		if i%61 == 60 {
			text = append(text, 10)
		} else {
			text = append(text, 32)
		}
	}
	text = append(text, head...)
	text = append(text, sym...)
	text = append(text, tail...)
	if len(text) == 0 {
		return
	}
	exp := refScanE(text)
	l, err := New("f", &memReader{data: text})
	verif.Assert(err == nil, "the emitted lexer cannot be constructed for a non-empty text")
	if err != nil {
		return
	}
	checkStreamE(l, text, exp, "emitted scan (pad "+itoaV(pad)+")")
}
"""


def access_words_auto(dfa_dump):
    """A shortest text leading the token automaton into each of its states (printable ASCII preferred)."""
    import tvsmt
    from collections import deque
    auto = tvsmt.Auto(dfa_dump)
    words = {auto.start: ''}
    dq = deque([auto.start])
    while dq:
        q = dq.popleft()
        for (a, b), t in auto.rows.get(q, ()):
            if t in words:
                continue
            cands = [c for c in (max(a, 0x21), a) if a <= c <= b and (c <= 0x7E or c >= 0xA0) and not (0xD800 <= c <= 0xDFFF)]
            if not cands:
                continue
            words[t] = words[q] + chr(cands[0])
            dq.append(t)
    out = [words[q] for q in sorted(words)]
    return [''] + [w for w in out if w]


def gen_scan_harness(o, sc, pads, tails, n):
    heads = access_words_auto(o['dfa'])[:40]
    extra = C19_EXTRA + '\nvar scanPads = []int{%s}\nvar scanTails = []string{%s}\nvar scanHeads = []string{%s}\n\nconst scanN = %d\n' % (
        ', '.join(str(p) for p in pads), ', '.join(gogen.go_str(t) for t in tails), ', '.join(gogen.go_str(t) for t in heads), n)
    ov, hp = gen_harness(o, sc, extra)
    # the scan harness needs more imports than the table harness
    src = open(hp).read().replace('import (\n\t"io"\n', 'import (\n\t"io"\n\t"strings"\n\t"unicode/utf8"\n')
    with open(hp, 'w') as f:
        f.write(src)
    return ov, hp
