"""./check <id> --replay <file>: re-runs a recorded counterexample against the current tree.

Layer S counterexamples (harness + input vector) are compiled natively with the harness files of their
package and run; Layer T counterexamples (pattern/specification + word) go through the dump driver.
Exit 1 and a VIOLATION line if the failure reproduces, exit 0 if it does not."""
import json
import os
import sys

from common import *


def harness_files(pkg_rel, sc):
    if pkg_rel == 'internal/ebnf/lexer':
        import c05
        import ebnf_tokens
        ref = ebnf_tokens.reference_dfa()
        hint = c05.impl_hint(sc)
        return c05.scan_files(sc, ref, c05.candidate_relation(ref, hint), scanPads=[0, 4092, 4093, 4094, 4095, 4096, 8191], scanTails=['', '\n', ' x'], scanPadN=2), None, 'lexer'
    if pkg_rel == 'internal/ebnf/parser':
        import lr
        import c04
        states, action, goto, prec = c04.dump_table(sc)
        return lr.files(sc, extra=[c04.gen_ref_tables(sc, states, action, goto)], lrK=10, lrEvalK=9, lrFailK=8, lrTreeK=9, lrBodyK=6), None, 'parser'
    if pkg_rel == 'internal/ebnf/parser/ast':
        import lr
        afs, extra = lr.ast_files(sc, astK=9, astBodyK=6, lrBodyK=6)
        return afs, extra, 'ast'
    if pkg_rel == 'internal/ebnf/parser/spec':
        import lr
        sfs, extra = lr.spec_files(sc, specK=8, specDirK=8, specWfK=8, specOrdK=8, specOrdK2=8)
        return sfs, extra, 'spec'
    if pkg_rel == 'internal/regex/parser/nfa':
        import c09
        return c09.files(sc, 5), None, 'nfa'
    return None, None, None


def replay(prop, path):
    with open(path) as f:
        r = json.load(f)
    with Scratch() as sc:
        if 'harness' in r and 'inputs' in r and r.get('pkg'):
            fs, extra, pkgname = harness_files(r['pkg'], sc)
            if fs is None:
                print('this counterexample is a vector of environment-stub decisions (engine-side); re-run ./check %s quick' % prop)
                return 0
            outcome, out = native_replay(r['pkg'], pkgname, fs, r['harness'], r['inputs'], sc, extra_overlay=extra)
            print('native replay of %s: %s' % (r['harness'], outcome))
            if outcome.startswith('assert-failed') or outcome.startswith('panic'):
                print('VIOLATION property=%s replay=%s' % (prop, path))
                return 1
            return 0
        import tv
        if 'pattern' in r:
            o = tv.run_jobs([{'op': 'accept', 'text': r['pattern'], 'word': r.get('word') or []}], sc, 'replay')[0]
            print('pattern %r word %r -> %r (recorded: %r)' % (r['pattern'], r.get('word'), (o or {}).get('accept'), r.get('native')))
            same = (o or {}).get('accept') == r.get('native')
        elif 'spec' in r:
            op = 'scan' if 'word' in r else 'spec'
            o = tv.run_jobs([{'op': op, 'text': r['spec'], 'word': r.get('word') or []}], sc, 'replay')[0]
            print('specification replayed: %s' % json.dumps({k: (o or {}).get(k) for k in ('err', 'panic', 'accept')})[:600])
            same = (o or {}).get('accept') == r.get('native') if 'word' in r else True
        elif 'grammar' in r:
            o = tv.run_jobs([{'op': 'lalr', 'text': r['grammar']}], sc, 'replay')[0]
            print('grammar replayed: %s' % json.dumps({k: (o or {}).get(k) for k in ('err', 'panic', 'errs')})[:600])
            same = True
        else:
            print('nothing replayable in this file; re-run ./check %s quick' % prop)
            return 0
        if same:
            print('VIOLATION property=%s replay=%s' % (prop, path))
            return 1
        return 0
