"""C07: a specification is rejected iff it is ill-formed; every terminal gets one definition."""
from common import *
import lr


def run(tier, rep):
    thorough = tier == 'thorough'
    K = 7 if thorough else 5
    with Scratch() as sc:
        sfs, extra = lr.spec_files(sc, specWfK=K)
        res = run_gosym(lr.spec_cfg(sfs, extra, 'harnessC07WellFormed', tier, opaque_pkgs=['math/rand'], max_steps=80000000), sc, 'c07', timeout=6 * 3600)
        merge_gosym(rep, res, 'spec.Parse + Spec.DFA on five fixed openings followed by every sequence of <= %d tokens (kinds symbolic, lexemes from small pools): rejected iff a documented defect is present; diagnostics; one definition per terminal' % K)
        seen = {}
        for v in res.get('violations') or []:
            key = v['msg'][:60]
            seen[key] = seen.get(key, 0) + 1
            if seen[key] > 1 or len(rep.violations) >= 6:
                continue
            outcome, out = native_replay(lr.SPEC_REL, 'spec', sfs, v['harness'], v['inputs'], sc, extra_overlay=extra)
            rep.coverage['traces_validated_against_impl'] = rep.coverage.get('traces_validated_against_impl', 0) + 1
            what = '%s: %s inputs=%s native=%s' % (v['harness'], v['msg'][:300], [(i['name'], i['value']) for i in v['inputs'] or []][:14], outcome[:200])
            if outcome.startswith('assert-failed') or outcome.startswith('panic'):
                rep.violation(what, {'harness': v['harness'], 'pkg': lr.SPEC_REL, 'inputs': v['inputs'], 'msg': v['msg'], 'native': outcome})
            else:
                rep.inconc('counterexample did not reproduce natively: ' + what)
        rep.coverage['defect_kinds_reached'] = sorted(k[8:] for k in (rep.parts[-1].get('reached') or {}) if k.startswith('defect: '))
        rep.assumptions += [
            'openings: `grammar g ;` alone, followed by a rule using a token and a literal, by two token definitions, or by a directive and a start rule; then <= %d arbitrary tokens' % K,
            'lexemes come from pools by kind and position (IDENT start/aa, TOKEN TA/TB, STRING s/t, REGEX x/y/"(", PREDEF $ID/$DIGIT/$BOGUS), so undefined, doubly defined and equal-valued terminals, unknown predefined names, invalid patterns, rules without production, missing start rules and handles in two levels all arise',
            '"emerge rejects" = spec.Parse or the construction of the token automaton (Spec.DFA) returns an error; LALR conflicts are not among the listed defects and are C06\'s subject',
            'two terminals "with the same value" are compared by their value text regardless of kind (a literal "x" and a pattern /x/ count as equal), which is emerge\'s own reading',
            'diagnostics: a message that belongs to a documented defect may appear only if that defect is present, and at least one present defect is named (a non-terminal without production has no fixed message and is exempt)',
        ]
