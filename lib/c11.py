"""C11: syntax trees of a specification reflect the source exactly (generic tree and typed tree)."""
from common import *
import lr


def handle_ast(rep, res, afs, extra, sc, prop):
    seen = {}
    n = 0
    for v in res.get('violations', []):
        key = (v['harness'], v['msg'][:80])
        seen[key] = seen.get(key, 0) + 1
        if seen[key] > 1 or n >= 6:
            continue
        n += 1
        outcome, out = native_replay(lr.AST_REL, 'ast', afs, v['harness'], v['inputs'], sc, extra_overlay=extra)
        rep.coverage['traces_validated_against_impl'] = rep.coverage.get('traces_validated_against_impl', 0) + 1
        what = '%s: %s [%s] inputs=%s native=%s' % (v['harness'], v['msg'], v['pos'][:160], [(i['name'], i['value']) for i in v['inputs'] or []][:20], outcome)
        if not (outcome.startswith('assert-failed') or outcome.startswith('panic')):
            rep.inconc('counterexample did not reproduce natively: ' + what + ' :: ' + out[-300:])
            continue
        rep.violation(what, {'harness': v['harness'], 'pkg': lr.AST_REL, 'inputs': v['inputs'], 'msg': v['msg'], 'native': outcome})


def run(tier, rep):
    thorough = tier == 'thorough'
    K = 9 if thorough else 7
    KB = 6 if thorough else 5
    with Scratch() as sc:
        fs = lr.files(sc, lrTreeK=K, lrBodyK=KB)
        res = run_gosym(lr.cfg(fs, 'harnessC11Generic', tier), sc, 'generic', timeout=4 * 3600)
        merge_gosym(rep, res, 'generic tree: ParseAndBuildAST vs reference derivation tree, every sequence of <= %d tokens' % K)
        lr.handle(rep, res, fs, sc, 'C11')
        res = run_gosym(lr.cfg(fs, 'harnessC11GenericBody', tier), sc, 'genericbody', timeout=4 * 3600)
        merge_gosym(rep, res, 'generic tree: one rule `grammar IDENT IDENT = <body> ;` with every body of <= %d tokens' % KB)
        lr.handle(rep, res, fs, sc, 'C11')
        res = run_gosym(lr.cfg(fs, 'harnessC11GenericDirective', tier), sc, 'genericdir', timeout=4 * 3600)
        merge_gosym(rep, res, 'generic tree: `grammar IDENT @left TOKEN` followed by every sequence of <= %d tokens' % (KB + 1))
        lr.handle(rep, res, fs, sc, 'C11')
        afs, extra = lr.ast_files(sc, astK=K, astBodyK=KB, lrBodyK=KB)
        res = run_gosym(lr.ast_cfg(afs, extra, 'harnessC11Typed', tier), sc, 'typed', timeout=4 * 3600)
        merge_gosym(rep, res, 'typed tree: ast.Parse (real actions) vs independent builder, every sequence of <= %d tokens' % K)
        handle_ast(rep, res, afs, extra, sc, 'C11')
        res = run_gosym(lr.ast_cfg(afs, extra, 'harnessC11TypedBody', tier), sc, 'typedbody', timeout=4 * 3600)
        merge_gosym(rep, res, 'typed tree: one rule with every body of <= %d tokens' % KB)
        handle_ast(rep, res, afs, extra, sc, 'C11')
        res = run_gosym(lr.ast_cfg(afs, extra, 'harnessC11TypedDirective', tier), sc, 'typeddir', timeout=4 * 3600)
        merge_gosym(rep, res, 'typed tree: `grammar IDENT @left TOKEN` followed by every sequence of <= %d tokens' % (KB + 1))
        handle_ast(rep, res, afs, extra, sc, 'C11')
        rep.assumptions += [
            'token kinds symbolic over the 22 kinds; lexemes are distinct placeholders (predefined names for PREDEF), positions distinct',
            'parser.New is presented renamed by the overlay so that ast.Parse reads from the stub lexer (generated from the current parser.go on every run)',
            'NOT decided: the round trip through printed EBNF text, and "the grammar obtained from the typed tree is the one emerge derives directly" (the language-level version of that clause is C01)',
            'bounds: %d tokens (arbitrary specifications), %d body tokens (one-rule specifications, 5 fixed tokens around them)' % (K, KB),
        ]
