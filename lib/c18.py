"""C18: parse callbacks fire in derivation order with the right values; errors abort."""
from common import *
import lr


def run(tier, rep):
    thorough = tier == 'thorough'
    K, KE, KF = (10, 9, 8) if thorough else (8, 7, 6)
    with Scratch() as sc:
        LONG = [12, 40, 120] if thorough else [40, 80]
        fs = lr.files(sc, lrK=K, lrEvalK=KE, lrFailK=KF, lrLongNs=LONG)
        for entry, label, bound in (
                ('harnessLRParse', 'token/production callbacks vs reverse rightmost derivation of the reference tree, every sequence of <= %d tokens', K),
                ('harnessLREvaluate', 'ParseAndEvaluate: body values left to right, head value and position, every sentence of <= %d tokens', KE),
                ('harnessLREvaluateLong', 'the same on long sentences of nine shapes (sizes ' + str(LONG) + '), one token kind arbitrary%.0d', 0),
                ('harnessLRFailure', 'failure injection at every callback / lexer call, every sentence of <= %d tokens', KF)):
            res = run_gosym(lr.cfg(fs, entry, tier), sc, entry, timeout=4 * 3600)
            merge_gosym(rep, res, label % bound)
            lr.handle(rep, res, fs, sc, 'C18')
        rep.assumptions += [
            'token kinds symbolic over the 22 kinds; lexemes and positions are distinct concrete placeholders',
            'the independently computed derivation is the reference parser of zz_verif_lr.go (documentation + precedence list)',
            'bounds: %d / %d / %d tokens for the three harnesses' % (K, KE, KF),
        ]
