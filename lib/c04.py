"""C04: the built-in EBNF parser accepts exactly the documented, disambiguated grammar."""
import os
import re
import shutil
import subprocess

from common import *
import gogen
import lr


def dump_table(sc):
    rc, out = run_native_test(lr.PKG_REL, [os.path.join(lr.HDIR, 'zz_verif_dump_test.go')], '^TestVerifDumpTable$', sc)
    if 'TABLE-ERROR' in out or 'ACTION' not in out:
        raise RuntimeError('table dump failed:\n' + out[-3000:])
    action, goto, states = {}, {}, []
    for line in out.splitlines():
        m = re.match(r'^STATE (\d+)$', line)
        if m:
            states.append(int(m.group(1)))
        m = re.match(r'^ACTION (\d+) ("(?:[^"\\]|\\.)*") (\w+) (-?\d+)$', line)
        if m:
            action.setdefault(int(m.group(1)), []).append((m.group(2), m.group(3), int(m.group(4))))
        m = re.match(r'^GOTO (\d+) ("(?:[^"\\]|\\.)*") (-?\d+)$', line)
        if m:
            goto.setdefault(int(m.group(1)), []).append((m.group(2), int(m.group(3))))
    prec = []
    for line in out.splitlines():
        m = re.match(r'^PREC (\d+) (\w+)((?: \[[^\]]*\])*)$', line)
        if m:
            prec.append((m.group(2), sorted(re.findall(r'\[([^\]]*)\]', m.group(3)))))
    return states, action, goto, prec


# docs/5-definitions.md, "Precedence and Associativity"
DOC_PRECEDENCES = [
    ('LEFT', sorted(['rhs = rhs rhs'])),
    ('LEFT', sorted(['"("', '"["', '"{"', '"{{"', '"IDENT"', '"TOKEN"', '"STRING"'])),
    ('RIGHT', sorted(['"|"'])),
    ('NONE', sorted(['"="'])),
    ('NONE', sorted(['"@left"', '"@right"', '"@none"'])),
]


def gen_ref_tables(sc, states, action, goto):
    code = {'SHIFT': 1, 'REDUCE': 2, 'ACCEPT': 3}
    src = ['//go:build verif', '', 'package parser', '',
           '// Generated on every run from lookahead.BuildParsingTable(G, precedences) of the current tree.', '',
           'const refMaxState = %d' % max(states), '',
           '// refACTION: typ 0 = no entry, 1 = SHIFT, 2 = REDUCE, 3 = ACCEPT (the values of lr.ActionType).',
           'func refACTION(s int, a string) (int, int) {', '\tswitch s {']
    for s in sorted(action):
        src.append('\tcase %d:' % s)
        src.append('\t\tswitch a {')
        for a, typ, par in action[s]:
            src.append('\t\tcase %s:' % a)
            src.append('\t\t\treturn %d, %d' % (code[typ], par))
        src.append('\t\t}')
    src += ['\t}', '\treturn 0, -1', '}', '', 'func refGOTO(s int, A string) int {', '\tswitch s {']
    for s in sorted(goto):
        src.append('\tcase %d:' % s)
        src.append('\t\tswitch A {')
        for A, nxt in goto[s]:
            src.append('\t\tcase %s:' % A)
            src.append('\t\t\treturn %d' % nxt)
        src.append('\t\t}')
    src += ['\t}', '\treturn -1', '}', '']
    path = sc.path('zz_verif_c04_ref.go')
    with open(path, 'w') as f:
        f.write('\n'.join(src))
    return path


def regenerate_check(rep, sc):
    """Auxiliary (byte equality by its own statement): re-run the table generator on a scratch copy."""
    dst = sc.path('repo')
    shutil.copytree(REPO, dst, ignore=shutil.ignore_patterns('.git'))
    pdir = os.path.join(dst, lr.PKG_REL)
    p = subprocess.run(['go', 'run', './generate'], cwd=pdir, env=go_env(), stdout=subprocess.PIPE, stderr=subprocess.STDOUT, text=True, timeout=600)
    same = False
    try:
        with open(os.path.join(pdir, 'parsing_table.go'), 'rb') as f1, open(os.path.join(REPO, lr.PKG_REL, 'parsing_table.go'), 'rb') as f2:
            same = f1.read() == f2.read()
    except OSError:
        pass
    rep.coverage['generator_rerun_byte_identical'] = same
    shutil.rmtree(dst, ignore_errors=True)
    if p.returncode != 0:
        rep.inconc('table generator did not run: ' + p.stdout[-500:])
    elif not same:
        rep.violation('regenerating the parsing table does not reproduce the checked-in parsing_table.go byte for byte',
                      {'harness': 'regenerate', 'cmd': 'cd internal/ebnf/parser && go run ./generate && git diff --stat'})


def run(tier, rep):
    thorough = tier == 'thorough'
    K = 10 if thorough else 8
    with Scratch() as sc:
        states, action, goto, prec = dump_table(sc)
        rep.coverage['precedence_levels_equal_documented'] = prec == DOC_PRECEDENCES
        if prec != DOC_PRECEDENCES:
            rep.violation('the precedence levels the table is generated from are not the published list: %r' % (prec,), {'harness': 'precedences', 'got': prec, 'want': DOC_PRECEDENCES})
        reft = gen_ref_tables(sc, states, action, goto)
        KB = 6 if thorough else 5
        LONG = [12, 40, 80] if thorough else [40]
        fs = lr.files(sc, extra=[reft], lrK=K, lrBodyK=KB, lrLongNs=LONG)
        rep.coverage['table_states'] = len(states)
        rep.coverage['action_entries'] = sum(len(v) for v in action.values())
        rep.coverage['goto_entries'] = sum(len(v) for v in goto.values())
        res = run_gosym(lr.cfg(fs, 'harnessC04Productions', tier), sc, 'prods')
        merge_gosym(rep, res, 'productions equal the documented grammar (35 productions)')
        lr.handle(rep, res, fs, sc, 'C04')
        res = run_gosym(lr.cfg(fs, 'harnessC04Tables', tier), sc, 'tables')
        merge_gosym(rep, res, 'S1 ACTION/GOTO vs LALR(1) table of the library: every int state x every terminal / non-terminal (and non-symbols)')
        lr.handle(rep, res, fs, sc, 'C04')
        res = run_gosym(lr.cfg(fs, 'harnessLRParse', tier), sc, 'parse', timeout=4 * 3600)
        merge_gosym(rep, res, 'S2 Parser.Parse on every sequence of <= %d tokens over the 22 kinds vs reference parser (acceptance, reduction order, error position)' % K)
        lr.handle(rep, res, fs, sc, 'C04')
        res = run_gosym(lr.cfg(fs, 'harnessLRBody', tier), sc, 'body', timeout=4 * 3600)
        merge_gosym(rep, res, 'S2b one rule `grammar IDENT IDENT = <body> ;` with every body of <= %d tokens vs reference parser' % KB)
        lr.handle(rep, res, fs, sc, 'C04')
        res = run_gosym(lr.cfg(fs, 'harnessLRLong', tier, max_steps=40000000), sc, 'long', timeout=4 * 3600)
        merge_gosym(rep, res, 'S2c long sentences of nine shapes (sizes %s: alternatives, concatenations, nesting, declarations, handles) with one token kind arbitrary (start / middle / end) vs reference parser' % LONG)
        lr.handle(rep, res, fs, sc, 'C04')
        regenerate_check(rep, sc)
        rep.assumptions += [
            'token kinds are the 22 kinds of the token table (the scanner cannot produce others); lexemes/positions are placeholders',
            'reference parser: harness/internal/ebnf/parser/zz_verif_lr.go, written from docs/5-definitions.md (grammar block + precedence list)',
            'S1 trusts lookahead.BuildParsingTable of github.com/moorara/algo as the definition of "the LALR(1) tables of that grammar"',
            'bounds: S2 token sequences of length <= %d; S1 has no bound in its domain; longer sequences rest on S1 + the LALR construction' % K,
            'auxiliary, not solver-decided: byte comparison of the regenerated parsing_table.go; comparison of the precedence levels (data) with the published list',
        ]
