"""Shared driver for the LR-driver harnesses (C04, C11, C14, C18, C20)."""
import os

from common import *

PKG_REL = 'internal/ebnf/parser'
PKG = MODULE + '/' + PKG_REL
HDIR = os.path.join(HARNESS, PKG_REL)
INIT = [PKG, MODULE + '/internal/verif', MODULE + '/internal/ebnf/lexer', 'github.com/moorara/algo/lexer', 'github.com/moorara/algo/list',
        'github.com/moorara/algo/grammar', 'github.com/moorara/algo/parser', 'io']
OPAQUE = ['github.com/moorara/algo/grammar.NewCFG', 'github.com/moorara/algo/parser/lr.NewPrecedenceHandles',
          'github.com/moorara/algo/parser/lr.PrecedenceHandleForTerminal', 'github.com/moorara/algo/parser/lr.PrecedenceHandleForProduction']


def gen_params(sc, **kw):
    src = ['//go:build verif', '', 'package parser', '']
    for k, v in kw.items():
        src.append('const %s = %s' % (k, v))
    path = sc.path('zz_verif_lr_params.go')
    with open(path, 'w') as f:
        f.write('\n'.join(src) + '\n')
    return path


def files(sc, extra=(), **params):
    fs = [os.path.join(HDIR, f) for f in sorted(os.listdir(HDIR)) if f.startswith('zz_verif_') and f.endswith('.go') and not f.endswith('_test.go')]
    fs.append(gen_params(sc, **params))
    fs.extend(extra)
    return fs


def cfg(fs, entry, tier, **kw):
    c = {'patterns': ['./' + PKG_REL], 'pkg': PKG, 'overlay': overlay_map(PKG_REL, fs), 'init_pkgs': INIT, 'entry': entry, 'opaque': OPAQUE,
         'cross': ['cvc5', 'z3'] if tier == 'thorough' else [], 'max_violations': 40}
    c.update(kw)
    return c


def handle(rep, res, fs, sc, prop, max_replays=8, tagmap=None):
    known = {k['tag']: k for k in open_findings(prop)}
    seen = {}
    n = 0
    for v in res.get('violations', []):
        kf = [t[3:] for t in v.get('tags') or [] if t.startswith('KF:') and t[3:] in known]
        key = (v['harness'], v['msg'][:80], tuple(kf))
        seen[key] = seen.get(key, 0) + 1
        if seen[key] > 1 or n >= max_replays:
            continue
        n += 1
        outcome, out = native_replay(PKG_REL, 'parser', fs, v['harness'], v['inputs'], sc)
        rep.coverage['traces_validated_against_impl'] = rep.coverage.get('traces_validated_against_impl', 0) + 1
        what = '%s: %s [%s] inputs=%s native=%s' % (v['harness'], v['msg'], v['pos'][:160], [(i['name'], i['value']) for i in v['inputs'] or []][:20], outcome)
        if not (outcome.startswith('assert-failed') or outcome.startswith('panic')):
            rep.inconc('counterexample did not reproduce natively: ' + what)
            continue
        if kf:
            rep.known_finding('%s %s' % (kf[0], known[kf[0]]['what']))
        else:
            rep.violation(what, {'harness': v['harness'], 'pkg': PKG_REL, 'inputs': v['inputs'], 'msg': v['msg'], 'native': outcome})
