"""Shared driver for the LR-driver harnesses (C04, C11, C14, C18, C20)."""
import os

from common import *

PKG_REL = 'internal/ebnf/parser'
PKG = MODULE + '/' + PKG_REL
HDIR = os.path.join(HARNESS, PKG_REL)
INIT = [PKG, MODULE + '/internal/verif', MODULE + '/internal/ebnf/lexer', 'github.com/moorara/algo/lexer/input', 'github.com/moorara/algo/lexer', 'github.com/moorara/algo/list',
        'github.com/moorara/algo/grammar', 'github.com/moorara/algo/parser', 'io']
OPAQUE = ['github.com/moorara/algo/grammar.NewCFG', 'github.com/moorara/algo/parser/lr.NewPrecedenceHandles',
          'github.com/moorara/algo/parser/lr.PrecedenceHandleForTerminal', 'github.com/moorara/algo/parser/lr.PrecedenceHandleForProduction']


def gen_params(sc, **kw):
    src = ['//go:build verif', '', 'package parser', '']
    for k, v in kw.items():
        if isinstance(v, list):
            src.append('var %s = []int{%s}' % (k, ', '.join(str(x) for x in v)))
        else:
            src.append('const %s = %s' % (k, v))
    path = sc.path('zz_verif_lr_params.go')
    with open(path, 'w') as f:
        f.write('\n'.join(src) + '\n')
    return path


def files(sc, extra=(), **params):
    fs = [os.path.join(HDIR, f) for f in sorted(os.listdir(HDIR)) if f.startswith('zz_verif_') and f.endswith('.go') and not f.endswith('_test.go')]
    defaults = dict(lrK=6, lrEvalK=6, lrFailK=5, lrTreeK=6, lrBodyK=5, lrLongNs=[40])
    defaults.update(params)
    fs.append(gen_params(sc, **defaults))
    fs.extend(extra)
    if not any(os.path.basename(f) == 'zz_verif_c04_ref.go' for f in extra):
        stub = sc.path('zz_verif_c04_ref.go')
        with open(stub, 'w') as f:
            f.write('//go:build verif\n\npackage parser\n\nconst refMaxState = 0\n\nfunc refACTION(s int, a string) (int, int) { return 0, -1 }\nfunc refGOTO(s int, A string) int { return -1 }\n')
        fs.append(stub)
    return fs


def cfg(fs, entry, tier, **kw):
    c = {'patterns': ['./' + PKG_REL], 'pkg': PKG, 'overlay': overlay_map(PKG_REL, fs), 'init_pkgs': INIT, 'entry': entry, 'opaque': OPAQUE,
         'cross': ['cvc5', 'z3'] if tier == 'thorough' else [], 'max_violations': 40}
    c.update(kw)
    return c


def handle(rep, res, fs, sc, prop, max_replays=8, tagmap=None):
    known = {k['tag']: k for k in open_findings(prop)}
    seen = {}
    n = 0
    for v in res.get('violations', []):
        kf = [t[3:] for t in v.get('tags') or [] if t.startswith('KF:') and t[3:] in known]
        key = (v['harness'], v['msg'][:80], tuple(kf))
        seen[key] = seen.get(key, 0) + 1
        if seen[key] > 1 or n >= max_replays:
            continue
        n += 1
        outcome, out = native_replay(PKG_REL, 'parser', fs, v['harness'], v['inputs'], sc)
        rep.coverage['traces_validated_against_impl'] = rep.coverage.get('traces_validated_against_impl', 0) + 1
        what = '%s: %s [%s] inputs=%s native=%s' % (v['harness'], v['msg'], v['pos'][:160], [(i['name'], i['value']) for i in v['inputs'] or []][:20], outcome)
        if not (outcome.startswith('assert-failed') or outcome.startswith('panic')):
            rep.inconc('counterexample did not reproduce natively: ' + what)
            continue
        if kf:
            rep.known_finding('%s %s' % (kf[0], known[kf[0]]['what']))
        else:
            rep.violation(what, {'harness': v['harness'], 'pkg': PKG_REL, 'inputs': v['inputs'], 'msg': v['msg'], 'native': outcome})


AST_REL = 'internal/ebnf/parser/ast'
AST_PKG = MODULE + '/' + AST_REL
AST_HDIR = os.path.join(HARNESS, AST_REL)


def ast_files(sc, **params):
    """Harness files for the ast package plus the overlay entries its dependency (parser) needs."""
    pfs = files(sc, **{k: v for k, v in params.items() if k.startswith('lr')})
    extra = {os.path.join(REPO, PKG_REL, os.path.basename(f)): f for f in pfs}
    # present parser.go with New renamed, and define New as the stub-aware constructor
    import re
    src = open(os.path.join(REPO, PKG_REL, 'parser.go')).read()
    patched, n = re.subn(r'\nfunc New\(filename string, src io\.Reader\) \(\*Parser, error\) \{', '\nfunc verifOrigNew(filename string, src io.Reader) (*Parser, error) {', src)
    if n != 1:
        raise RuntimeError('cannot locate parser.New in the current tree')
    pp = sc.path('parser_patched.go')
    with open(pp, 'w') as f:
        f.write(patched)
    extra[os.path.join(REPO, PKG_REL, 'parser.go')] = pp
    nn = sc.path('zz_verif_new.go')
    with open(nn, 'w') as f:
        f.write('//go:build verif\n\npackage parser\n\nimport "io"\n\n// New is the stub-aware constructor in harness builds of the typed-tree package.\nfunc New(filename string, src io.Reader) (*Parser, error) { return VerifNew(filename, src) }\n\nvar _ = verifOrigNew\n')
    extra[os.path.join(REPO, PKG_REL, 'zz_verif_new.go')] = nn
    path = sc.path('zz_verif_ast_params.go')
    with open(path, 'w') as f:
        f.write('//go:build verif\n\npackage ast\n\nconst astK = %d\nconst astBodyK = %d\n' % (params.get('astK', 6), params.get('astBodyK', 5)))
    afs = [os.path.join(AST_HDIR, f) for f in sorted(os.listdir(AST_HDIR)) if f.startswith('zz_verif_') and f.endswith('.go') and not f.endswith('_test.go')]
    afs.append(path)
    return afs, extra


def ast_cfg(afs, extra, entry, tier, **kw):
    c = {'patterns': ['./' + AST_REL], 'pkg': AST_PKG, 'overlay': overlay_map(AST_REL, afs, extra), 'init_pkgs': INIT + [AST_PKG], 'entry': entry,
         'opaque': OPAQUE,
         'cross': ['cvc5', 'z3'] if tier == 'thorough' else [], 'max_violations': 40}
    c.update(kw)
    return c


SPEC_REL = 'internal/ebnf/parser/spec'
SPEC_PKG = MODULE + '/' + SPEC_REL
SPEC_HDIR = os.path.join(HARNESS, SPEC_REL)


def spec_files(sc, **params):
    """Harness files for the spec package (parser.New presented stub-aware, as for the ast package)."""
    _, extra = ast_files(sc, **params)
    path = sc.path('zz_verif_spec_params.go')
    with open(path, 'w') as f:
        f.write('//go:build verif\n\npackage spec\n\nconst specK = %d\nconst specDirK = %d\nconst specWfK = %d\nconst specOrdK = %d\nconst specOrdK2 = %d\n' % (params.get('specK', 5), params.get('specDirK', 4), params.get('specWfK', 5), params.get('specOrdK', 3), params.get('specOrdK2', 4)))
    sfs = [os.path.join(SPEC_HDIR, f) for f in sorted(os.listdir(SPEC_HDIR)) if f.startswith('zz_verif_') and f.endswith('.go') and not f.endswith('_test.go')]
    sfs.append(path)
    return sfs, extra


def spec_cfg(sfs, extra, entry, tier, **kw):
    c = {'patterns': ['./' + SPEC_REL], 'pkg': SPEC_PKG, 'overlay': overlay_map(SPEC_REL, sfs, extra),
         'init_pkgs': [MODULE + '/...', 'github.com/moorara/algo/...', 'io', 'unicode/utf8'], 'entry': entry,
         'cross': ['cvc5', 'z3'] if tier == 'thorough' else [], 'max_violations': 40}
    c.update(kw)
    return c
