"""C20: lexical and syntax errors are reported at the first offending token."""
import os

from common import *
import lr
import c05
import ebnf_tokens


def run(tier, rep):
    thorough = tier == 'thorough'
    K = 10 if thorough else 8
    N = 4 if thorough else 3
    with Scratch() as sc:
        fs = lr.files(sc, lrK=K)
        res = run_gosym(lr.cfg(fs, 'harnessLRParse', tier), sc, 'syntax', timeout=4 * 3600)
        merge_gosym(rep, res, 'syntax errors: every rejected sequence of <= %d tokens: ParseError position/lexeme = first token the reference parser cannot continue with; later tokens never read; truncation blames no token' % K)
        lr.handle(rep, res, fs, sc, 'C20')
        ref = ebnf_tokens.reference_dfa()
        files = c05.scan_files(sc, ref, [(0, 0)], scanN=N, scanInvN=2, scanTails=['', ' y\n'])
        res = run_gosym(c05.base_cfg(files, 'harnessScanLoop', tier, concretize=[c05.PKG + '.advanceDFA']), sc, 'lexical', timeout=4 * 3600)
        merge_gosym(rep, res, 'lexical errors: every text of <= %d bytes: the error names file:line:column of the first character of the stray or unterminated element' % N)
        c05.handle_violations(rep, res, files, sc, prop='C20')
        res = run_gosym(c05.base_cfg(files, 'harnessScanInvalid', tier, concretize=[c05.PKG + '.advanceDFA']), sc, 'invalid', timeout=4 * 3600)
        merge_gosym(rep, res, 'bytes that are not UTF-8: every ASCII text of <= %d bytes followed by every byte >= 0x80: complete tokens first, then an error naming the position of that byte' % 2)
        c05.handle_violations(rep, res, files, sc, prop='C20')
        rep.assumptions += [
            'first offending token = where the reference parser (documentation + precedence list) gets stuck; that everything before it is a viable prefix follows from the table equality of C04/S1 and the LALR correct-prefix property (not re-decided here)',
            'bounds: token sequences <= %d, texts <= %d bytes in 0x01..0x7F' % (K, N),
        ]
