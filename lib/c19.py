"""C19: compiled, the emitted lexer tokenises input exactly as the token automaton says."""
import os

from common import *
import emit
import c08

# per corpus index: concrete tails that exercise the specification's own tokens (incl. multi-byte ones)
TAILS = {
    0: ['', ' if ab 12;', 'x\n'],
    1: ['', ' a1 = 42\r\n', '\tz'],
    2: ['', '# c\n"s" + "t"', ' '],
    3: ["'a' '", "x"],
    4: ['"a', '\\b '],
    6: ['\tx', '\nx\n'],
    7: ['éé àz', 'é', 'éàz é'],
    8: ['€!', '\U00010348 !\n', '!€!\U00010348€'],
    9: ['if', 'ifx '],
    11: ['func f()', 'fo for x1'],
    16: [' if in ab 12', 'inx 1 i'],
    17: ['a\nbc\n', 'a =b\n \nc', ' \n'],
}


def run(tier, rep):
    thorough = tier == 'thorough'
    corp = emit.specs('quick')
    chosen = sorted(TAILS) if thorough else [0, 1, 7, 8, 9, 17]
    pads = [0, 1, 4090, 4093, 4094, 4095, 4096, 4097, 8190, 8191, 8192] if thorough else [0, 4094, 4095, 4096]
    n = 2  # three arbitrary bytes x 11 paddings took more than half an hour per package
    with Scratch() as sc:
        res = emit.emit_all(corp, sc)
        done = 0
        for idx in chosen:
            o = res[idx]
            label = o['text'].replace('\n', ' ')[:100]
            if o.get('panic') or o.get('parse_err') or o.get('dfa_err') or o.get('gen_err'):
                rep.inconc('corpus specification not generated: %s: %s' % (label, o.get('panic') or o.get('parse_err') or o.get('dfa_err') or o.get('gen_err')))
                continue
            rc, out = emit.build_emitted(o['pkgdir'], sc)
            if rc != 0:
                rep.violation('the emitted lexer cannot be compiled, so it cannot tokenise anything: %s\n%s' % (label, out.strip()[:400]), {'spec': o['text'], 'go_vet': out[-1000:]})
                continue
            ov, hp = emit.gen_scan_harness(o, sc, pads, TAILS[idx], n)
            cfg = {'dir': o['pkgdir'], 'patterns': ['.'], 'pkg': 'emitted', 'overlay': ov, 'init_pkgs': ['emitted', 'emitted/verif', 'io', 'unicode/utf8'],
                   'entry': 'harnessEmittedScan', 'summaries': ['emitted.advanceDFA', 'emitted.refDelta'], 'concretize': ['emitted.advanceDFA'],
                   'cross': ['cvc5', 'z3'] if thorough else [], 'max_violations': 20, 'max_steps': 80000000}
            r = run_gosym(cfg, sc, 'scan_%s' % o['name'], timeout=6 * 3600)
            merge_gosym(rep, r, 'emitted %s: New/NextToken/evalDFA/reader on %d paddings x %d tails x every ASCII text of <= %d bytes vs the token automaton' % (o['name'], len(pads), len(TAILS[idx]), n))
            done += 1
            seen = {}
            for v in r.get('violations') or []:
                key = v['msg'][:70]
                seen[key] = seen.get(key, 0) + 1
                if seen[key] > 1 or len(rep.violations) >= 8:
                    continue
                outcome = c08.replay_emitted(o, ov, v, sc)
                rep.coverage['traces_validated_against_impl'] = rep.coverage.get('traces_validated_against_impl', 0) + 1
                what = 'emitted lexer for [%s]: %s inputs=%s native=%s' % (label, v['msg'], [(i['name'], i['value']) for i in v['inputs'] or []][:8], outcome)
                if outcome.startswith('assert-failed') or outcome.startswith('panic'):
                    rep.violation(what, {'spec': o['text'], 'inputs': v['inputs'], 'msg': v['msg'], 'native': outcome})
                else:
                    rep.inconc('counterexample did not reproduce natively: ' + what)
        rep.coverage['programs_emitted_and_encoded'] = done
        rep.assumptions += [
            'enumerated dimension: %d emitted packages of the emission corpus; paddings %r; concrete tails per specification (with multi-byte characters where the specification has such tokens)' % (len(chosen), pads),
            'symbolic dimension: 0..%d arbitrary bytes in 0x01..0x7F between padding and tail; reference = the token automaton of the same tree with the documented skip/discard rules' % n,
            'the byte offset is compared only while all preceding characters are ASCII (the documentation says "byte offset", the reader counts characters)',
            '"compiled and run" is honoured by the native replay of every counterexample inside the emitted module; the solver verdict is about the emitted package\'s go/ssa',
        ]
