#!/usr/bin/env python3
"""Entry point of every check:  check.py <property id> <quick|thorough>  |  check.py <id> --replay <file>"""
import importlib
import os
import sys
import traceback

sys.path.insert(0, os.path.dirname(os.path.abspath(__file__)))
from common import *

LEVELS = {
    'C01': 'translation_validation', 'C02': 'translation_validation', 'C03': 'translation_validation',
    'C04': 'model_checking', 'C05': 'model_checking', 'C06': 'translation_validation', 'C07': 'model_checking', 'C08': 'model_checking',
    'C09': 'model_checking', 'C10': 'translation_validation', 'C11': 'model_checking', 'C12': 'model_checking', 'C13': 'model_checking',
    'C14': 'model_checking', 'C15': 'model_checking', 'C16': 'model_checking', 'C17': 'model_checking', 'C18': 'model_checking',
    'C19': 'model_checking', 'C20': 'model_checking',
}


def main():
    if len(sys.argv) < 3:
        print(__doc__)
        return 2
    prop = sys.argv[1]
    if sys.argv[2] == '--replay':
        import replay
        return replay.replay(prop, sys.argv[3])
    tier = sys.argv[2]
    rep = Report(prop, tier, LEVELS[prop])
    try:
        mod = importlib.import_module(prop.lower())
        mod.run(tier, rep)
    except Exception as e:
        traceback.print_exc()
        rep.inconc('check crashed: %r' % (e,))
    return rep.finish()


if __name__ == '__main__':
    sys.exit(main())
