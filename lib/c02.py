"""C02: token patterns compile to automata that accept exactly the pattern's language."""
import multiprocessing
import os

from common import *
import regex_ref as rr
import tv
import tvsmt

KF_NUL = 'C02-nul-epsilon'
STAGES = ['nfa', 'todfa', 'min', 'elim', 'reindex', 'regexToDFA']


def check_one(args):
    """Solver-side check of one pattern (runs in a worker process)."""
    idx, tree, text, out, L, do_stages = args
    st = tvsmt.Stats()
    res = {'idx': idx, 'text': text, 'problems': [], 'kf': []}
    errs = out.get('errs') or {}
    stages = out.get('stages') or {}
    if out.get('panic') or errs.get('nfa_panic'):
        res['problems'].append({'kind': 'panic', 'what': 'building the automaton panics: %s' % (out.get('panic') or errs.get('nfa_panic')), 'word': []})
        res['stats'] = st.__dict__
        return res
    if 'nfa' in errs or 'regexToDFA' not in stages:
        res['problems'].append({'kind': 'rejected', 'what': 'a pattern of the documented language is rejected: %s' % (errs.get('nfa') or errs.get('regexToDFA') or 'no automaton'), 'word': []})
        res['stats'] = st.__dict__
        return res
    final = tvsmt.Auto(stages['regexToDFA'])
    has_nul = rr.any_node(tree, rr.impl_set_has_nul)
    w = tvsmt.regex_vs_auto(tree, final, L, st)
    if w == 'unknown':
        res['problems'].append({'kind': 'unknown', 'what': 'solver gave up on the denotation query', 'word': []})
    elif w is not None:
        handled = False
        if has_nul:
            w2 = tvsmt.regex_vs_auto(tree, final, L, st, nul_quirk=True)
            if w2 is None:
                res['kf'].append({'tag': KF_NUL, 'word': w})
                handled = True
            elif w2 != 'unknown':
                w = w2
        if not handled:
            res['problems'].append({'kind': 'language', 'what': 'automaton and documented meaning differ', 'word': w,
                                    'ref': rr.matches(tree, w), 'impl': final.accepts(w)})
    if do_stages:
        autos = {}
        for s in STAGES:
            if s in stages and stages[s] is not None:
                autos[s] = tvsmt.determinize_nfa(stages[s]) if s == 'nfa' else tvsmt.Auto(stages[s])
        prev = None
        for s in STAGES:
            if s not in autos:
                continue
            if prev is not None:
                r = tvsmt.bisim(autos[prev], autos[s], st)
                if r is not None and r.get('kind') in ('unknown', 'relation too large'):
                    res['problems'].append({'kind': 'unknown', 'what': 'bisimulation %s/%s: %s' % (prev, s, r['kind']), 'word': []})
                elif r is not None:
                    res['problems'].append({'kind': 'stage', 'what': 'stage %s and stage %s accept different languages (%s)' % (prev, s, r.get('kind')), 'word': r.get('word', [])})
            prev = s
    res['stats'] = st.__dict__
    return res


def run(tier, rep):
    thorough = tier == 'thorough'
    L = 8 if thorough else 6
    seed = rep.seed
    corpus = rr.corpus(tier, seed)
    import parser_predefs
    with Scratch() as sc:
        predefs = parser_predefs.read_predefs()
        jobs = [{'op': 'regex', 'text': text} for _, text in corpus]
        pre = [(name, pat) for name, pat in sorted(predefs.items())]
        jobs += [{'op': 'regex', 'text': pat} for _, pat in pre]
        outs = tv.run_jobs(jobs, sc, 'c02')
        work = []
        for i, (tree, text) in enumerate(corpus):
            if outs[i] is None:
                rep.inconc('dump driver lost pattern %r' % text)
                continue
            work.append((i, tree, text, outs[i], L, True))
        with multiprocessing.Pool(min(10, os.cpu_count() or 1)) as pool:
            results = pool.map(check_one, work, chunksize=8)
        total = tvsmt.Stats()
        samples = []
        known = {k['tag']: k for k in open_findings('C02')}
        kf_seen = {}
        problems = []
        for r in results:
            s = tvsmt.Stats()
            s.__dict__.update(r['stats'])
            total.add(s)
            if len(samples) < 6:
                samples.append({'pattern': r['text'], 'verdict': 'differs' if r['problems'] else ('known-finding' if r['kf'] else 'equal up to L and stage-equal'), 'witness': (r['problems'] or r['kf'] or [{}])[0].get('word')})
            for k in r['kf']:
                kf_seen.setdefault(k['tag'], []).append((r['text'], k['word']))
            for p in r['problems']:
                problems.append((r['text'], p))
        # predefined patterns: text -> automaton must be stage-consistent and a sentence of the language (no tree: read from the code)
        for j, (name, pat) in enumerate(pre):
            o = outs[len(corpus) + j]
            if o is None or (o.get('errs') or {}).get('nfa') or (o.get('errs') or {}).get('nfa_panic'):
                problems.append((pat, {'kind': 'rejected', 'what': 'predefined pattern %s does not compile: %s' % (name, o and o.get('errs')), 'word': []}))
        # replay and report
        replay_jobs, idxmap = [], []
        for text, p in problems[:12]:
            replay_jobs.append({'op': 'accept', 'text': text, 'word': p.get('word') or []})
            idxmap.append(('problem', text, p))
        for tag, lst in kf_seen.items():
            text, word = lst[0]
            replay_jobs.append({'op': 'accept', 'text': text, 'word': word})
            idxmap.append(('kf', tag, (text, word)))
        routs = tv.run_jobs(replay_jobs, sc, 'c02replay') if replay_jobs else []
        tree_by_text = {text: tree for tree, text in corpus}
        for (kind, a, b), o in zip(idxmap, routs):
            rep.coverage['disagreements_checked'] = rep.coverage.get('disagreements_checked', 0) + 1
            acc = (o or {}).get('accept') or {}
            if kind == 'kf':
                text, word = b
                real = acc.get('nfa_route')
                want = rr.matches(tree_by_text[text], word)
                if a in known and real is not None and str(want).lower() != str(real).lower():
                    rep.known_finding('%s %s [witness: pattern %r, word %r: documented meaning %s, automaton %s; %d patterns of the class differ only by this quirk]' % (a, known[a]['what'], text, ''.join(map(chr, word)), want, real, len(kf_seen[a])))
                elif a not in known:
                    rep.violation('pattern %r: word %r: documented meaning %s, automaton says %s' % (text, word, want, real), {'pattern': text, 'word': word, 'native': acc})
                else:
                    rep.inconc('known-finding witness did not reproduce natively: %r %r %r' % (text, word, acc))
            else:
                text, p = a, b
                if p['kind'] == 'unknown':
                    rep.inconc('pattern %r: %s' % (text, p['what']))
                    continue
                if p['kind'] == 'language':
                    real = acc.get('nfa_route')
                    if str(real).lower() != str(p['impl']).lower():
                        rep.inconc('witness did not reproduce natively (encoding defect?): pattern %r word %r native %r' % (text, p['word'], acc))
                        continue
                rep.violation('pattern %r: %s; witness word %r (documented: %s, automaton: %s)' % (text, p['what'], ''.join(map(chr, p.get('word') or [])), p.get('ref'), p.get('impl')),
                              {'pattern': text, 'word': p.get('word'), 'kind': p['kind'], 'native': acc})
        for text, p in problems[12:]:
            if p['kind'] == 'unknown':
                rep.inconc('pattern %r: %s' % (text, p['what']))
        rep.coverage.update({
            'programs': len(work) + len(pre), 'samples': samples, 'queries': total.queries, 'queries_sat': total.sat, 'queries_unsat': total.unsat,
            'queries_unknown': total.unknown, 'solver_seconds': round(total.seconds, 2), 'word_length_bound': L,
            'patterns_differing': len(problems), 'patterns_in_known_finding_class': sum(len(v) for v in kf_seen.values()),
            'predefined_patterns': [n for n, _ in pre],
            'functions_run': ['spec.regexToDFA', 'nfa.Parse', 'auto.NFA.ToDFA', 'auto.DFA.Minimize', 'auto.DFA.EliminateDeadStates', 'auto.DFA.ReindexStates'],
        })
        rep.coverage.setdefault('disagreements_checked', 0)
        rep.assumptions += [
            'program dimension enumerated: all pattern trees up to %d nodes over {a,b}, every class/escape/bracket item individually, every quantifier form on five operand shapes, seeded random larger trees (VERIF_SEED), the predefined patterns' % (6 if thorough else 4),
            'solver dimension: all words of length <= %d over 0x01..0x7F plus the pattern\'s explicit code points (denotation query); stage-to-stage equalities by an inductive bisimulation step over all code points (no length bound)' % L,
            'reference meaning: /verif/ref/regex_ref.py (written from docs/5-definitions.md; classes with their POSIX/RE2 meaning); anchors and \\p{..} not generated',
            'predefined patterns: the documentation does not spell them, so only "compiles without error" is checked for their texts read from parser.Predefs',
        ]
