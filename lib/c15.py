"""C15 (partial): the outcome does not depend on the iteration order of the hash maps emerge's own code ranges over."""
from common import *
import lr

MAP_ORDER = [MODULE + '/internal/']


def run(tier, rep):
    thorough = tier == 'thorough'
    K = 5 if thorough else 4
    with Scratch() as sc:
        sfs, extra = lr.spec_files(sc, specOrdK=K)
        res = run_gosym(lr.spec_cfg(sfs, extra, 'harnessC15Order', tier, opaque_pkgs=['math/rand'], max_steps=80000000,
                                    map_order=MAP_ORDER, max_map_perm=4), sc, 'c15', timeout=6 * 3600)
        merge_gosym(rep, res, "spec.Parse + Spec.DFA run twice on seven fixed openings followed by every sequence of <= %d tokens: sorted map order vs every permutation (first 4 entries) of every Go map ranged over in emerge's own packages" % K)
        seen = set()
        for v in (res.get('violations') or []):
            key = v['msg'][:60]
            if key in seen or len(seen) >= 4:
                continue
            seen.add(key)
            outcome, out = native_replay(lr.SPEC_REL, 'spec', sfs, v['harness'], v['inputs'], sc, extra_overlay=extra)
            rep.coverage['traces_validated_against_impl'] = rep.coverage.get('traces_validated_against_impl', 0) + 1
            what = '%s: %s inputs=%s map orders=%s native (300 runs under the Go runtime\'s own map randomisation)=%s' % (
                v['harness'], v['msg'][:300], [(i['name'], i['value']) for i in v['inputs'] or []][:12], [t for t in (v.get('tags') or []) if t.startswith('maporder')][:3], outcome)
            if outcome.startswith('assert-failed') or outcome.startswith('panic'):
                rep.violation(what, {'harness': v['harness'], 'pkg': lr.SPEC_REL, 'inputs': v['inputs'], 'msg': v['msg'], 'native': outcome})
            else:
                rep.inconc('counterexample did not reproduce natively: ' + what)
