"""C15 (partial): the outcome does not depend on the iteration order of the hash maps emerge's own code ranges over."""
from common import *
import lr
import c16

MAP_ORDER = [MODULE + '/internal/']


def run(tier, rep):
    thorough = tier == 'thorough'
    K, K2 = (4, 5) if thorough else (3, 4)
    PERM = 3
    SITES = 1  # two perturbed traversals per path did not finish within an hour at the thorough bounds
    with Scratch() as sc:
        sfs, extra = lr.spec_files(sc, specOrdK=K, specOrdK2=K2)
        res = run_gosym(lr.spec_cfg(sfs, extra, 'harnessC15Order', tier, opaque_pkgs=['math/rand'], max_steps=80000000,
                                    map_order=MAP_ORDER, max_map_perm=PERM, max_order_sites=SITES), sc, 'c15', timeout=6 * 3600)
        merge_gosym(rep, res, "spec.Parse + Spec.DFA run twice on eight fixed openings followed by every sequence of <= %d tokens (<= %d after the three openings built for this property): sorted map order vs every permutation (of the first %d entries) of every Go map ranged over in emerge's own packages" % (K, K2, PERM))
        seen = set()
        for v in (res.get('violations') or []):
            key = v['msg'][:160]
            if key in seen or len(seen) >= 4:
                continue
            seen.add(key)
            outcome, out = native_replay(lr.SPEC_REL, 'spec', sfs, v['harness'], v['inputs'], sc, extra_overlay=extra)
            rep.coverage['traces_validated_against_impl'] = rep.coverage.get('traces_validated_against_impl', 0) + 1
            what = '%s: %s inputs=%s map orders=%s native (300 runs under the Go runtime\'s own map randomisation)=%s' % (
                v['harness'], v['msg'][:300], [(i['name'], i['value']) for i in v['inputs'] or []][:12], [t for t in (v.get('tags') or []) if t.startswith('maporder')][:3], outcome)
            if outcome.startswith('assert-failed') or outcome.startswith('panic'):
                rep.violation(what, {'harness': v['harness'], 'pkg': lr.SPEC_REL, 'inputs': v['inputs'], 'msg': v['msg'], 'native': outcome})
            else:
                rep.inconc('counterexample did not reproduce natively: ' + what)
        # the generator: template data, files and diagnostics
        name, rel, pkg, pkgname, entry, redirect, opq, label = c16.HARNESSES[0]
        cfg = c16.cfg(rel, pkg, 'harnessC15Generate', redirect, opq, tier)
        cfg.update({'map_order': MAP_ORDER, 'max_map_perm': PERM, 'max_order_sites': SITES, 'max_steps': 200000000})
        res = run_gosym(cfg, sc, 'c15gen', timeout=6 * 3600)
        merge_gosym(rep, res, "golang.Generate (operating system always succeeding, template.Execute replaced by a recorder of the template data) on a corpus of 6 specifications: sorted map order vs every permutation (of the first %d entries) of every Go map ranged over in emerge's own packages" % PERM)
        for v in (res.get('violations') or [])[:3]:
            rep.violation('%s: %s inputs=%s map orders=%s' % (v['harness'], v['msg'][:400], [(i['name'], i['value']) for i in v['inputs'] or []][:6], [t for t in (v.get('tags') or []) if t.startswith('maporder')][:3]),
                          {'harness': v['harness'], 'pkg': rel, 'inputs': v['inputs'], 'msg': v['msg'], 'note': 'environment stubs are engine-side redirects'})
        rep.assumptions += [
            'the iteration order of a Go map is a free decision of the path only where emerge\'s own code (module packages under internal/) ranges over it; rand.Shuffle inside the All() of the library\'s hash tables/sets and sort.Shuffle at the start of the library\'s quick sort are free permutations only when the nearest caller outside those packages is one of emerge\'s own functions, the identity otherwise (what the library traverses or sorts on its own behalf is outside the claim); goroutines of the code under test run as coroutines whose order at WaitGroup.Wait is free, without preemption inside them',
            'at most %d traversals/sorts per path get a non-sorted order' % SITES,
            'only the first %d entries of a ranged map are permuted (larger maps: the rest keeps sorted order; counted under "map order: only the first entries permuted")' % PERM,
            'the bytes of the generated files are represented by the data handed to the templates (template texts are constants, text/template is deterministic); progress messages (random emoji) are outside the property',
            'fresh-process effects other than map iteration order (hash seeds inside the library, scheduling) are NOT decided; repeated in-process invocations are the subject of C17',
            'bounds: %d appended tokens after five openings, %d after the three openings built for this property; 6 specifications through Generate' % (K, K2),
        ]
