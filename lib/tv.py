"""Layer T driver: run the real pipeline natively on a corpus (dump driver) and give the
outputs to the solver-side checks."""
import json
import os
import subprocess

from common import *

SPEC_REL = 'internal/ebnf/parser/spec'
DUMP = os.path.join(HARNESS, SPEC_REL, 'zz_verif_dump_test.go')


def run_jobs(jobs, sc, name='jobs', shards=8, timeout=3600):
    """jobs: list of {'op':..., 'text':...}; returns list of outputs aligned with jobs."""
    for i, j in enumerate(jobs):
        j['id'] = i
    # build the test binary once, then run shards in parallel
    ov = overlay_map(SPEC_REL, [DUMP])
    opath = sc.path(name + '_overlay.json')
    with open(opath, 'w') as f:
        json.dump({'Replace': ov}, f)
    binp = sc.path(name + '.test')
    env = go_env()
    p = subprocess.run(['go', 'test', '-tags', 'verif', '-vet=off', '-overlay', opath, '-c', '-o', binp, './' + SPEC_REL],
                       cwd=REPO, env=env, stdout=subprocess.PIPE, stderr=subprocess.STDOUT, text=True, timeout=900)
    if p.returncode != 0 or not os.path.exists(binp):
        raise RuntimeError('dump driver does not build:\n' + p.stdout[-3000:])
    shards = max(1, min(shards, len(jobs) // 50 + 1))
    procs = []
    for s in range(shards):
        part = jobs[s::shards]
        jp, op = sc.path('%s_%d.in' % (name, s)), sc.path('%s_%d.out' % (name, s))
        with open(jp, 'w') as f:
            for j in part:
                f.write(json.dumps(j) + '\n')
        e = dict(env)
        e['VERIF_JOBS'], e['VERIF_OUT'] = jp, op
        procs.append((subprocess.Popen([binp, '-test.run', '^TestVerifDump$', '-test.timeout', '0'], cwd=os.path.join(REPO, SPEC_REL), env=e,
                                       stdout=subprocess.PIPE, stderr=subprocess.STDOUT, text=True), op))
    outs = [None] * len(jobs)
    for pr, op in procs:
        so, _ = pr.communicate(timeout=timeout)
        if os.path.exists(op):
            with open(op) as f:
                for line in f:
                    o = json.loads(line)
                    outs[o['id']] = o
        if pr.returncode != 0:
            # a crash of the whole driver (e.g. fatal error) loses the shard's tail
            pass
    os.remove(binp)
    return outs
