#!/usr/bin/env python3
"""Writes /verif/MANIFEST.json from the table below (run after adding or removing a check)."""
import json
import os

VERIF = os.path.dirname(os.path.dirname(os.path.abspath(__file__)))

TECH = 'SMT-decided bounded symbolic execution of the real go/ssa code (gosym: path feasibility, assertions and safety obligations discharged by z3 5.1; cvc5 and z3 4.8 cross-check in the thorough tier)'
TRUST = 'trusted: go/ssa and go/types, the gosym encoder (summaries validated on concrete vectors; every counterexample replayed natively before it is reported), the solvers, the reference transcribed from the documentation, the stubs listed in the evidence file'

CHECKS = {
    'C04': ('model_checking', 'symbolic execution of the real ACTION/GOTO and Parse driver: the tables are compared entry by entry (every integer state, every terminal/non-terminal and non-symbols, no bound) with the LALR(1) table the library builds; every token sequence up to a length bound, and long sentences of nine shapes (40-120 repetitions, one token kind symbolic), are compared with a reference parser written from the documentation (acceptance, reduction order, error token); regeneration byte-compare is auxiliary', '§7 C04'),
    'C05': ('model_checking', 'symbolic execution of the real scanner: one inductive bisimulation step compares advanceDFA/evalDFA with the documented automaton for every state and every int32 rune (no length bound); the real NextToken loop over the real reader is compared with the reference token stream for every text up to a length bound and for a shortest text into each state of the documented automaton followed by symbolic bytes; the lexeme rule for every STRING/REGEX text up to a length bound', '§7 C05'),
    'C13': ('model_checking', 'symbolic execution of lexer.New + NextToken + the two-buffer reader with the symbolic text placed behind concrete paddings that sweep the buffer alignments or one giant skipped element (spaces, tabs, blank lines, comments of 4096+ bytes), and followed by concrete tails (with and without final newline); the stream must equal the reference stream, which is a function of the text alone', '§7 C13'),
}

CHECKS.update({
    'C11': ('model_checking', 'symbolic execution of ParseAndBuildAST and of ast.Parse with its real semantic actions over every token sequence up to a length bound (kinds symbolic): the generic tree must be the reference derivation tree over the input tokens, the typed tree must equal an independently built one; the round-trip and derived-grammar clauses are not decided', '§7 C11'),
    'C18': ('model_checking', 'symbolic execution of Parse and ParseAndEvaluate with monitoring callbacks over every token sequence up to a length bound and long sentences (40-120 repetitions): callback order = reverse rightmost derivation of the reference tree, body values and positions, and a symbolic failure step for callbacks and lexer', '§7 C18'),
    'C20': ('model_checking', 'symbolic execution: every rejected token sequence up to a length bound must blame the first token the reference parser cannot continue with (position, lexeme, nothing later read); every text up to a length bound with a stray or unterminated element, or followed by a byte that is not UTF-8, must name its first character', '§7 C20'),
})

TV_TECH = 'SMT-decided translation validation: the real pipeline of the current tree is run on each member of an enumerated corpus of programs (dump driver), and z3 decides the universally quantified dimension (all words / all sentences up to a bound, or all symbols with no length bound by an inductive bisimulation step) against a denotational reference; witnesses are replayed against the real code'
TV_TRUST = 'trusted: the dump driver (runs the real code natively), the reference denotations written from the documentation (/verif/ref), the SMT encodings (validated by native replay of every witness), z3; corpus generators can only shrink coverage'
TV = {
    'C01': ('translation_validation', 'per generated EBNF specification, the productions the real spec.Parse derives are compared with the EBNF denotation over one symbolic sentence up to a length bound, from start and from every user rule (both sides least fixed points); plus structural obligations (no empty names, every used non-terminal has a production)', '§7 C01'),
    'C02': ('translation_validation', 'per generated pattern, the real regexToDFA automaton is compared with the documented meaning over one symbolic word up to a length bound (span-matrix denotation), and every pipeline stage (NFA, ToDFA, Minimize, EliminateDeadStates, ReindexStates) with its predecessor by an inductive bisimulation step over all code points (no length bound)', '§7 C02'),
    'C03': ('translation_validation', 'per generated definition set, the real Spec.DFA combined automaton and terminal map are compared with the documented winner rule over one symbolic word up to a length bound, the conflict report is justified or refuted by a solver witness, and the whole automaton is compared without length bound with the labelled product of independently built reference automata', '§7 C03'),
    'C06': ('translation_validation', 'PARTIAL: per corpus grammar the real LALR table (or conflict report) is obtained; the standard shift-reduce run over it (unrolled bit-vector machine) is compared with CFG membership / precedence-aware membership over one symbolic sentence up to a length bound, reductions are checked against the declared levels and associativities, accepted grammars are searched for an ambiguity witness and rejected ones must have one or be a literature-labelled family. Not decided: that every LALR(1) grammar is accepted', '§7 C06'),
    'C10': ('translation_validation', 'per generated pattern, the directly constructed automaton is compared with the documented meaning (symbolic word up to a length bound) and with the NFA-route automaton by an inductive bisimulation step over all code points except U+0000 (no length bound)', '§7 C10'),
}

CHECKS.update({
    'C08': ('model_checking', 'per specification of an emission corpus the real generator is run, the emitted package must build with the standard library only (auxiliary), and its go/ssa is executed symbolically: emitted advanceDFA (summarised) and evalDFA are compared with the token automaton of the same tree for every integer state and every int32 rune (no bound in that domain)', '§7 C08'),
    'C19': ('model_checking', 'symbolic execution of the emitted package itself (New, NextToken, evalDFA, the emitted two-buffer reader and stack): concrete paddings sweeping the buffer alignments + arbitrary ASCII bytes + concrete tails with multi-byte characters (and a shortest text into each automaton state as head), compared call by call with the reference token stream of the token automaton and the documented skip/discard rules', '§7 C19'),
})

CHECKS.update({
    'C09': ('model_checking', 'symbolic execution of nfa.Parse with the real combinator parser and mappers over every printable-ASCII text up to a length bound: acceptance implies that the whole text is a sentence of the documented grammar (a character-level recogniser written as Boolean terms), also inside fixed frames of the longer constructs (category and class names, bounds, hexadecimal escapes); descending ranges and inverted repetition bounds are rejected with an error naming the problem', '§7 C09'),
    'C14': ('model_checking', 'symbolic execution of every entry point on arbitrary inputs up to a bound (scanner+reader on arbitrary bytes, ast.Parse and the whole spec.Parse on every token sequence, the pattern compiler on arbitrary strings, main/Run/Generate against an arbitrary environment): every reachable panic, failed assertion, index error, nil dereference, success with a nil result or exhausted step budget is a finding with a model; auxiliary: boundary patterns (extreme hexadecimal escapes, large counts) compiled natively under a time and memory limit', '§7 C14'),
    'C16': ('model_checking', 'PARTIAL (operating system modelled): symbolic execution of main.main, Command.Run and Generate/prepare/renderTemplate with the OS, the flag parser, Parse, Generate, isIDValid and template execution as contract-constrained nondeterministic stubs: status 0 and the success message iff every step succeeded and all six files were opened exclusively under <out>/<name>; flags honoured; invalid name rejected before anything is created (isIDValid decided on all keywords and predeclared identifiers of Go); no call that could touch pre-existing state', '§7 C16'),
})

CHECKS.update({
    'C17': ('model_checking', 'PARTIAL: two-thread mode of the symbolic executor - two harness bodies (hashStrings; spec.Parse of two specifications) run as coroutines, every call/load/store/map access inside the watched functions is a preemption point and the schedule (bounded number of context switches) is a path decision, so all such schedules are explored; each result must equal the isolated result and must not depend on what was processed before (histories over accepted and rejected specifications and over well-formed and defective patterns); a counterexample is confirmed natively, schedule-dependent ones with the race detector', '§7 C17'),
})

CHECKS.update({
    'C12': ('model_checking', 'symbolic execution of the whole spec.Parse (real directive actions 12-19, AddPrecedence, symbol table) on a fixed small specification followed by every token sequence up to a length bound (kinds symbolic): for every accepted result the recorded precedence levels are compared with the directives read off the reference derivation tree - count, order, associativity, exactly the listed terminals, and the productions of every rule handle (members of the derived grammar, one per alternative)', '§7 C12 / §13.3'),
})

CHECKS.update({
    'C07': ('model_checking', 'symbolic execution of the whole spec.Parse and Spec.DFA on five fixed openings followed by every token sequence up to a length bound (kinds symbolic, lexemes from small pools so that every documented defect arises): the specification is rejected iff a documented defect is present according to a well-formedness predicate evaluated on the reference derivation tree; diagnostics name only present defects; accepted specifications have exactly one definition per terminal', '§7 C07 / §13.3'),
})

CHECKS.update({
    'C15': ('model_checking', 'PARTIAL: map-order mode of the symbolic executor - the iteration order of every Go map that emerge\'s own code ranges over, the (deliberately shuffled) traversal order of the library\'s hash tables and sets where emerge\'s own code traverses them, the input order of the library\'s shuffled quick sort where emerge\'s own code sorts, and the completion order of goroutines at WaitGroup.Wait are decisions of the path (every permutation up to 3 entries, identity and reversal beyond; at most 1 perturbed traversal per path); spec.Parse + Spec.DFA on eight fixed openings followed by every token sequence up to a length bound (kinds symbolic), and golang.Generate on a small corpus with the OS succeeding and template execution replaced by a recorder of the template data, are each run once in sorted order and once under every order: diagnostics and their order, the specification, the final-state lists, the template data and the files opened must be identical; counterexamples are confirmed natively by repeating the run under the Go runtime\'s own map randomisation. NOT decided: traversals and sorts the library makes on its own behalf, hash seeds of fresh processes, preemptive scheduling', '§13 C15'),
})

NA = {
}


def main():
    props = [json.loads(l) for l in open(os.path.join(VERIF, 'properties.jsonl'))]
    checks = []
    for pid in sorted(CHECKS):
        cat, text, ref = CHECKS[pid]
        checks.append({
            'property_id': pid, 'quick_cmd': './check %s quick' % pid, 'thorough_cmd': './check %s thorough' % pid,
            'evidence_file': 'evidence/%s.json' % pid, 'replay_cmd_template': './check %s --replay {path}' % pid, 'engine': 'gosym',
            'level_claimed': {'category': cat, 'text': text, 'design_ref': 'DESIGN.md ' + ref},
            'level_note': TRUST, 'technique': TECH,
        })
    for pid in sorted(TV):
        cat, text, ref = TV[pid]
        checks.append({
            'property_id': pid, 'quick_cmd': './check %s quick' % pid, 'thorough_cmd': './check %s thorough' % pid,
            'evidence_file': 'evidence/%s.json' % pid, 'replay_cmd_template': './check %s --replay {path}' % pid, 'engine': 'tvsmt',
            'level_claimed': {'category': cat, 'text': text, 'design_ref': 'DESIGN.md ' + ref},
            'level_note': TV_TRUST, 'technique': TV_TECH,
        })
    checks.sort(key=lambda c: c['property_id'])
    na = []
    for p in props:
        if p['id'] in CHECKS or p['id'] in TV:
            continue
        na.append({'property_id': p['id'], 'reason': NA.get(p['id'], 'check not built yet (work in progress in this session)')})
    m = {
        'version': 1,
        'setup_cmd': './setup.sh',
        'hooks': {'guard': 'verif',
                  'enable': 'harness files (//go:build verif) are injected with a build overlay: gosym loads /repo with -tags verif and an overlay; native replays and dump drivers run `go test -tags verif -overlay <generated json>`; nothing is added to /repo',
                  'baseline_off_cmd': 'cd /repo && go test -mod=mod -vet=off -count=1 -timeout 25m ./...',
                  'source_commits': [], 'add_only': True},
        'engines': [{'name': 'gosym', 'path': 'gosym/', 'serves_properties': sorted(CHECKS),
                     'kind_free_text': 'bounded symbolic executor for go/ssa (own code, derived from x/tools go/ssa/interp) that decides path feasibility, harness assertions and implicit safety obligations with SMT solvers (QF_BV)'},
                    {'name': 'tvsmt', 'path': 'lib/tvsmt.py', 'serves_properties': sorted(TV),
                     'kind_free_text': 'translation validation: native dump driver (go test -overlay) + z3 encodings of words, regex denotations, automaton runs, bisimulation steps and CFG membership'}],
        'checks': checks,
        'not_applicable': na,
        'notes': 'Every check rebuilds from /repo\'s working tree (go/packages load + SSA build per run). Exit 0 = held, 1 = VIOLATION, 2 = INCONCLUSIVE. known_findings.json lists genuine defects (open ones print KNOWN-FINDING).',
    }
    with open(os.path.join(VERIF, 'MANIFEST.json'), 'w') as f:
        json.dump(m, f, indent=1)


if __name__ == '__main__':
    main()
