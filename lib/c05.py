"""C05: EBNF scanner yields exactly the documented tokens, lexemes and positions."""
import os
import re
import sys

from common import *
import gogen
import ebnf_tokens

PKG_REL = 'internal/ebnf/lexer'
PKG = MODULE + '/' + PKG_REL
HDIR = os.path.join(HARNESS, PKG_REL)
INIT = [MODULE + '/internal/ebnf/lexer', MODULE + '/internal/verif', 'github.com/moorara/algo/lexer', 'github.com/moorara/algo/lexer/input', 'github.com/moorara/algo/list', 'io']


def impl_hint(scratch):
    rc, out = run_native_test(PKG_REL, [os.path.join(HDIR, 'zz_verif_dump_test.go')], '^TestVerifDumpDFA$', scratch)
    table = {}
    for m in re.finditer(r'^DFA (\d+) (\d+) (-?\d+)$', out, re.M):
        table[(int(m.group(1)), int(m.group(2)))] = int(m.group(3))
    if not table:
        raise RuntimeError('DFA dump failed:\n' + out[-3000:])
    return table


def candidate_relation(ref, hint):
    """Pairs (impl state, ref state) reachable in the product, explored on the hint's sample runes."""
    runes = sorted({c for (_, c) in hint})
    pairs = [(0, 0)]
    seen = {(0, 0)}
    i = 0
    while i < len(pairs):
        p, q = pairs[i]
        i += 1
        for c in runes:
            p2 = hint.get((p, c))
            q2 = ref.step(q, c)
            if p2 is None or q2 is None:
                continue  # a one-sided death is left for the solver to report
            if (p2, q2) not in seen:
                seen.add((p2, q2))
                pairs.append((p2, q2))
    return pairs


def gen_params(scratch, name, **kw):
    """Harness parameters (bounds) as Go declarations: ints become constants, lists become slices."""
    src = ['//go:build verif', '', 'package lexer', '']
    for k, v in kw.items():
        if isinstance(v, list) and v and isinstance(v[0], str):
            src.append('var %s = []string{%s}' % (k, ', '.join(gogen.go_str(x) for x in v)))
        elif isinstance(v, list):
            src.append('var %s = []int{%s}' % (k, ', '.join(str(x) for x in v)))
        else:
            src.append('const %s = %s' % (k, v))
    path = scratch.path(name)
    with open(path, 'w') as f:
        f.write('\n'.join(src) + '\n')
    return path


def gen_ref_file(scratch, ref, pairs):
    src = ['//go:build verif', '', 'package lexer', '', '// Generated on every run from /verif/ref/ebnf_tokens.py (the documentation) and a product exploration.', '']
    src.append(gogen.gen_delta('refDelta', ref))
    src.append(gogen.gen_label('refLabel', ref))
    src.append(gogen.gen_label_code('refLabelCode', ref))
    src.append(gogen.gen_pairs('refPairs', pairs))
    path = scratch.path('zz_verif_c05_ref.go')
    with open(path, 'w') as f:
        f.write('\n'.join(src))
    return path


def access_words(ref):
    """A shortest text leading the documented automaton into each of its states (printable ASCII preferred)."""
    from collections import deque
    words = {0: ''}
    dq = deque([0])
    while dq:
        q = dq.popleft()
        for (a, b), t in ref.trans.get(q, ()):
            if t in words:
                continue
            # a representative of the interval: printable ASCII if the interval has one
            cands = [c for c in (max(a, 0x21), max(a, 0x20), a) if a <= c <= b and c <= 0x7E]
            if not cands:
                continue
            words[t] = words[q] + chr(cands[0])
            dq.append(t)
    return [words[q] for q in sorted(words)]


DEFAULT_PARAMS = dict(scanN=3, scanMinN=0, scanLexN=6, scanPadN=1, scanPads=[0], scanTails=['\n'], c14N=3, scanAccN=2, scanBigs=[4096], scanLayN=1, scanInvN=2)


def scan_files(sc, ref, pairs, **params):
    p = dict(DEFAULT_PARAMS)
    p.update(params)
    params = p
    reffile = gen_ref_file(sc, ref, pairs)
    params.setdefault('scanAccess', access_words(ref))
    par = gen_params(sc, 'zz_verif_params.go', **params)
    return [os.path.join(HDIR, 'zz_verif_c05.go'), os.path.join(HDIR, 'zz_verif_scan.go'), os.path.join(HDIR, 'zz_verif_c14.go'), reffile, par]


def base_cfg(files, entry, tier, **kw):
    cfg = {
        'patterns': ['./' + PKG_REL], 'pkg': PKG, 'overlay': overlay_map(PKG_REL, files),
        'init_pkgs': INIT, 'entry': entry,
        'summaries': [PKG + '.advanceDFA', PKG + '.refDelta', PKG + '.refLabelCode'],
        'cross': ['cvc5', 'z3'] if tier == 'thorough' else [],
        'max_violations': 40,
    }
    cfg.update(kw)
    return cfg


def run(tier, rep):
    thorough = tier == 'thorough'
    with Scratch() as sc:
        ref = ebnf_tokens.reference_dfa()
        hint = impl_hint(sc)
        pairs = candidate_relation(ref, hint)
        rep.coverage['relation_pairs'] = len(pairs)
        rep.coverage['reference_states'] = ref.n
        params = dict(scanN=4 if thorough else 3, scanMinN=0, scanLexN=8 if thorough else 6, scanAccN=2)
        files = scan_files(sc, ref, pairs, **params)
        # S1: transition function and labels, all states x all int32 runes
        res = run_gosym(base_cfg(files, 'harnessC05Bisim', tier), sc, 's1')
        merge_gosym(rep, res, 'S1 bisimulation step: advanceDFA/evalDFA vs documented automaton (all int32 runes, %d related pairs)' % len(pairs))
        handle_violations(rep, res, files, sc)
        # S2: lexeme rule for STRING / REGEX
        res = run_gosym(base_cfg(files, 'harnessC05Lexeme', tier), sc, 's2')
        merge_gosym(rep, res, 'S2 evalDFA lexeme of every STRING/REGEX text up to %d bytes' % params['scanLexN'])
        handle_violations(rep, res, files, sc)
        # S3: the scanning loop over the real two-buffer reader
        res = run_gosym(base_cfg(files, 'harnessScanLoop', tier, concretize=[PKG + '.advanceDFA']), sc, 's3')
        merge_gosym(rep, res, 'S3 lexer.New + NextToken loop + two-buffer reader: every text of <= %d bytes in 0x01..0x7F vs reference token stream' % params['scanN'])
        handle_violations(rep, res, files, sc)
        # S4: the same loop started deep inside every token: a shortest text reaching each state of the documented automaton, then symbolic bytes
        res = run_gosym(base_cfg(files, 'harnessScanAccess', tier, concretize=[PKG + '.advanceDFA']), sc, 's4')
        merge_gosym(rep, res, 'S4 the same loop on a shortest text reaching each of the %d states of the documented automaton followed by every text of <= %d bytes' % (ref.n, params['scanAccN']))
        handle_violations(rep, res, files, sc)
        rep.assumptions += [
            'text bytes in 0x01..0x7F for the loop harness (NUL is the reader sentinel; bytes >= 0x80 are covered for crash-freedom under C14)',
            'io.Reader fills the buffer until the data is exhausted (os.File / strings.Reader behaviour); short reads are outside the claim',
            'reference automaton: /verif/ref/ebnf_tokens.py (token table of docs/5-definitions.md + skipped elements of docs/6-design.md)',
            'bounds: loop text length <= %(scanN)d (buffer alignment is the subject of C13), lexeme length <= %(scanLexN)d; S1 has no bound in its domain' % params,
        ]


def handle_violations(rep, res, files, sc, max_replays=10, prop='C05'):
    known = {k['tag']: k for k in open_findings(prop)}
    seen = {}
    replays = 0
    for v in res.get('violations', []):
        kf = [t[3:] for t in v.get('tags') or [] if t.startswith('KF:') and t[3:] in known]
        key = (v['harness'], v['msg'], tuple(kf))
        seen[key] = seen.get(key, 0) + 1
        if seen[key] > 1 or replays >= max_replays:
            continue
        replays += 1
        outcome, out = native_replay(PKG_REL, 'lexer', files, v['harness'], v['inputs'], sc)
        rep.coverage['traces_validated_against_impl'] = rep.coverage.get('traces_validated_against_impl', 0) + 1
        reproduced = outcome.startswith('assert-failed') or outcome.startswith('panic')
        what = '%s: %s [%s] inputs=%s native=%s' % (v['harness'], v['msg'], v['pos'][:200], [(i['name'], i['value']) for i in v['inputs'] or []][:16], outcome)
        if not reproduced:
            rep.inconc('counterexample did not reproduce natively (encoder or stub defect): ' + what)
            continue
        if kf:
            rep.known_finding('%s %s' % (kf[0], known[kf[0]]['what']))
        else:
            rep.violation(what, {'harness': v['harness'], 'pkg': PKG_REL, 'inputs': v['inputs'], 'msg': v['msg'], 'native': outcome,
                                 'text': ''.join(chr(i['value']) for i in (v['inputs'] or []) if i['kind'] == 'byte')})
