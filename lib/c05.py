"""C05: EBNF scanner yields exactly the documented tokens, lexemes and positions."""
import os
import re
import sys

from common import *
import gogen
import ebnf_tokens

PKG_REL = 'internal/ebnf/lexer'
PKG = MODULE + '/' + PKG_REL
HDIR = os.path.join(HARNESS, PKG_REL)
INIT = [MODULE + '/internal/ebnf/lexer', MODULE + '/internal/verif', 'github.com/moorara/algo/lexer', 'github.com/moorara/algo/lexer/input', 'github.com/moorara/algo/list', 'io']


def impl_hint(scratch):
    rc, out = run_native_test(PKG_REL, [os.path.join(HDIR, 'zz_verif_dump_test.go')], '^TestVerifDumpDFA$', scratch)
    table = {}
    for m in re.finditer(r'^DFA (\d+) (\d+) (-?\d+)$', out, re.M):
        table[(int(m.group(1)), int(m.group(2)))] = int(m.group(3))
    if not table:
        raise RuntimeError('DFA dump failed:\n' + out[-3000:])
    return table


def candidate_relation(ref, hint):
    """Pairs (impl state, ref state) reachable in the product, explored on the hint's sample runes."""
    runes = sorted({c for (_, c) in hint})
    pairs = [(0, 0)]
    seen = {(0, 0)}
    i = 0
    while i < len(pairs):
        p, q = pairs[i]
        i += 1
        for c in runes:
            p2 = hint.get((p, c))
            q2 = ref.step(q, c)
            if p2 is None or q2 is None:
                continue  # a one-sided death is left for the solver to report
            if (p2, q2) not in seen:
                seen.add((p2, q2))
                pairs.append((p2, q2))
    return pairs


def gen_ref_file(scratch, ref, pairs):
    src = ['//go:build verif', '', 'package lexer', '', '// Generated on every run from /verif/ref/ebnf_tokens.py (the documentation) and a product exploration.', '']
    src.append(gogen.gen_delta('refDelta', ref))
    src.append(gogen.gen_label('refLabel', ref))
    src.append(gogen.gen_pairs('refPairs', pairs))
    path = scratch.path('zz_verif_c05_ref.go')
    with open(path, 'w') as f:
        f.write('\n'.join(src))
    return path


def run(tier, rep):
    with Scratch() as sc:
        ref = ebnf_tokens.reference_dfa()
        hint = impl_hint(sc)
        pairs = candidate_relation(ref, hint)
        reffile = gen_ref_file(sc, ref, pairs)
        files = [os.path.join(HDIR, 'zz_verif_c05.go'), reffile]
        cfg = {
            'patterns': ['./' + PKG_REL], 'pkg': PKG, 'overlay': overlay_map(PKG_REL, files),
            'init_pkgs': INIT, 'entry': 'harnessC05Bisim',
            'summaries': [PKG + '.advanceDFA', PKG + '.refDelta'],
            'cross': ['z3-new', 'cvc5'] if tier == 'thorough' else [],
        }
        res = run_gosym(cfg, sc, 's1')
        merge_gosym(rep, res, 'S1 bisimulation step: advanceDFA/evalDFA vs documented automaton (all int32 runes, %d related pairs)' % len(pairs))
        handle_violations(rep, res, files, sc)
        rep.coverage['relation_pairs'] = len(pairs)
        rep.coverage['reference_states'] = ref.n


def handle_violations(rep, res, files, sc):
    known = {k['tag']: k for k in open_findings('C05')}
    for v in res.get('violations', []):
        outcome, out = native_replay(PKG_REL, 'lexer', files, v['harness'], v['inputs'], sc)
        rep.coverage['traces_validated_against_impl'] = rep.coverage.get('traces_validated_against_impl', 0) + 1
        reproduced = outcome.startswith('assert-failed') or outcome.startswith('panic')
        what = '%s: %s [%s] inputs=%s native=%s' % (v['harness'], v['msg'], v['pos'], [(i['name'], i['value']) for i in v['inputs']][:16], outcome)
        if not reproduced:
            rep.inconc('counterexample did not reproduce natively (encoder or stub defect): ' + what)
            continue
        kf = [t[3:] for t in v.get('tags') or [] if t.startswith('KF:') and t[3:] in known]
        if kf:
            rep.known_finding('%s %s' % (kf[0], known[kf[0]]['what']))
        else:
            rep.violation(what, {'harness': v['harness'], 'pkg': PKG_REL, 'inputs': v['inputs'], 'msg': v['msg'], 'native': outcome})
