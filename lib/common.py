"""Shared machinery of the checks: overlay construction, gosym runs, native replay,
known findings, evidence files, VIOLATION / KNOWN-FINDING reporting."""
import json
import os
import re
import shutil
import subprocess
import sys
import tempfile
import time

VERIF = os.path.dirname(os.path.dirname(os.path.abspath(__file__)))
REPO = os.environ.get('VERIF_REPO', '/repo')
MODULE = 'github.com/gardenbed/emerge'
GOSYM = os.path.join(VERIF, 'bin', 'gosym')
HARNESS = os.path.join(VERIF, 'harness')
EVIDENCE = os.environ.get('VERIF_EVIDENCE_DIR') or os.path.join(VERIF, 'evidence')
REPLAYS = os.environ.get('VERIF_REPLAYS_DIR') or os.path.join(VERIF, 'replays')
sys.path.insert(0, os.path.join(VERIF, 'ref'))
sys.path.insert(0, os.path.join(VERIF, 'lib'))


def go_env():
    """Environment for `go` commands run inside /repo (default go switches to the go.mod toolchain)."""
    env = dict(os.environ)
    env['GOFLAGS'] = '-mod=mod'
    env['GOPROXY'] = 'off'
    env.pop('GOTOOLCHAIN', None)
    env.pop('GOSUMDB', None)
    env.setdefault('GOCACHE', os.path.join(os.path.expanduser('~'), '.cache', 'go-build'))
    return env


class Scratch:
    """A scratch directory outside /repo and /verif, removed on exit."""

    def __init__(self, prefix='verif-'):
        self.dir = tempfile.mkdtemp(prefix=prefix)

    def path(self, *p):
        return os.path.join(self.dir, *p)

    def close(self):
        shutil.rmtree(self.dir, ignore_errors=True)

    def __enter__(self):
        return self

    def __exit__(self, *a):
        self.close()


def overlay_map(pkg_rel, files, extra=None):
    """Virtual-path -> real-path map injecting harness files into /repo.

    pkg_rel: package directory relative to the repo root (e.g. 'internal/ebnf/lexer').
    files: list of real paths (or (virtual name, real path)) to inject into that package.
    The verif package itself is always injected at internal/verif."""
    m = {os.path.join(REPO, 'internal', 'verif', 'verif.go'): os.path.join(HARNESS, 'verif', 'verif.go')}
    for f in files:
        if isinstance(f, tuple):
            name, real = f
        else:
            name, real = os.path.basename(f), f
        m[os.path.join(REPO, pkg_rel, name)] = real
    if extra:
        m.update(extra)
    return m


def run_gosym(cfg, scratch, name='run', timeout=3600):
    """Run the symbolic executor with the given config dict; returns the result dict."""
    cfg = dict(cfg)
    cfg.setdefault('dir', REPO)
    cfg.setdefault('tags', 'verif')
    out = scratch.path(name + '.result.json')
    cfg['out'] = out
    cpath = scratch.path(name + '.config.json')
    with open(cpath, 'w') as f:
        json.dump(cfg, f)
    env = go_env()
    t0 = time.time()
    p = subprocess.run([GOSYM, '-config', cpath], env=env, stdout=subprocess.PIPE, stderr=subprocess.PIPE,
                       text=True, timeout=timeout)
    if not os.path.exists(out):
        return {'error': 'gosym failed: ' + (p.stderr or p.stdout)[-4000:], 'violations': [], 'inconclusive': ['gosym did not produce a result'],
                'paths': 0, 'solver_queries': 0, 'wall_seconds': time.time() - t0}
    with open(out) as f:
        res = json.load(f)
    res['stderr'] = p.stderr[-2000:]
    for k in ('violations', 'inconclusive', 'samples', 'summaries', 'functions'):
        if res.get(k) is None:
            res[k] = []
    return res


REPLAY_TEST_TMPL = '''//go:build verif

package %(pkgname)s

import (
	"testing"

	"%(module)s/internal/verif"
)

func TestVerifReplay(t *testing.T) {
	verif.RunReplay(map[string]func(){
%(entries)s
	})
}
'''


def native_replay(pkg_rel, pkgname, harness_files, harness, inputs, scratch, extra_overlay=None, timeout=600, module=MODULE, repo=None):
    """Compile the harness natively against the current tree and run it on a replay vector.

    Returns (outcome, output) where outcome is one of:
      'completed', 'assume-failed', 'assert-failed: <msg>', 'panic: <...>', 'error: <...>'."""
    repo = repo or REPO
    vec = scratch.path('replay_%s_%d.json' % (harness, int(time.time() * 1000) % 1000000))
    with open(vec, 'w') as f:
        json.dump({'inputs': inputs}, f)
    names = harness_names(harness_files)
    entries = '\n'.join('\t\t"%s": %s,' % (n, n) for n in names)
    tpath = scratch.path('zz_verif_replay_%s_test.go' % pkgname)
    with open(tpath, 'w') as f:
        f.write(REPLAY_TEST_TMPL % {'pkgname': pkgname, 'module': module, 'entries': entries})
    ov = overlay_map(pkg_rel, list(harness_files) + [('zz_verif_replay_test.go', tpath)], extra_overlay)
    if repo != REPO:
        ov = {k.replace(REPO, repo, 1): v for k, v in ov.items()}
    opath = scratch.path('overlay_%s.json' % harness)
    with open(opath, 'w') as f:
        json.dump({'Replace': ov}, f)
    env = go_env()
    env['VERIF_REPLAY'] = vec
    env['VERIF_HARNESS'] = harness
    cmd = ['go', 'test', '-tags', 'verif', '-vet=off', '-count=1', '-overlay', opath, '-run', '^TestVerifReplay$', '-v', './' + pkg_rel]
    try:
        p = subprocess.run(cmd, cwd=repo, env=env, stdout=subprocess.PIPE, stderr=subprocess.STDOUT, text=True, timeout=timeout)
    except subprocess.TimeoutExpired as e:
        return 'timeout', (e.stdout or '')[-2000:] if isinstance(e.stdout, str) else ''
    out = p.stdout
    m = re.search(r'VERIF-REPLAY-END: (.*)', out)
    if m:
        return m.group(1).strip(), out
    m = re.search(r'^panic: (.*)$', out, re.M)
    if m:
        return 'panic: ' + m.group(1).strip(), out
    return 'error: no replay marker', out


def harness_names(files):
    names = []
    for f in files:
        real = f[1] if isinstance(f, tuple) else f
        with open(real) as fh:
            for m in re.finditer(r'^func (harness\w+)\(\)', fh.read(), re.M):
                names.append(m.group(1))
    return names


def run_native_test(pkg_rel, files, run, scratch, extra_overlay=None, env_extra=None, timeout=1800, tags='verif'):
    """Run an overlay-injected native test (dump drivers) in a package of /repo; returns stdout."""
    ov = overlay_map(pkg_rel, files, extra_overlay)
    opath = scratch.path('overlay_native_%d.json' % (int(time.time() * 1000) % 1000000))
    with open(opath, 'w') as f:
        json.dump({'Replace': ov}, f)
    env = go_env()
    if env_extra:
        env.update(env_extra)
    cmd = ['go', 'test', '-tags', tags, '-vet=off', '-count=1', '-overlay', opath, '-run', run, '-v', './' + pkg_rel]
    p = subprocess.run(cmd, cwd=REPO, env=env, stdout=subprocess.PIPE, stderr=subprocess.STDOUT, text=True, timeout=timeout)
    return p.returncode, p.stdout


# ---- known findings -------------------------------------------------------------

def load_known():
    p = os.path.join(VERIF, 'known_findings.json')
    if not os.path.exists(p):
        return []
    with open(p) as f:
        return json.load(f)['findings']


def open_findings(prop):
    return [k for k in load_known() if k['property'] == prop and k['status'] == 'open']


# ---- reporting -------------------------------------------------------------------

class Report:
    """Collects the outcome of a check and writes evidence + the stdout protocol lines."""

    def __init__(self, prop, tier, level):
        self.prop = prop
        self.tier = tier
        self.level = level
        self.seed = int(os.environ.get('VERIF_SEED', '0') or 0)
        self.t0 = time.time()
        self.violations = []      # (what, replay path)
        self.known = []           # strings
        self.inconclusive = []
        self.coverage = {}
        self.assumptions = []
        self.parts = []

    def violation(self, what, replay_obj):
        os.makedirs(REPLAYS, exist_ok=True)
        path = os.path.join(REPLAYS, '%s_%d.json' % (self.prop, len(self.violations)))
        replay_obj = dict(replay_obj)
        replay_obj['property'] = self.prop
        replay_obj['what'] = what
        with open(path, 'w') as f:
            json.dump(replay_obj, f, indent=1)
        self.violations.append((what, path))

    def known_finding(self, what):
        if what not in self.known:
            self.known.append(what)

    def inconc(self, what):
        if what not in self.inconclusive:
            self.inconclusive.append(what)

    def finish(self):
        os.makedirs(EVIDENCE, exist_ok=True)
        cov = dict(self.coverage)
        if self.level == 'model_checking':
            for k in ('states', 'transitions', 'traces_validated_against_impl'):
                cov.setdefault(k, 0)
            cov.setdefault('samples', [])
        if self.level == 'translation_validation':
            for k in ('programs', 'disagreements_checked'):
                cov.setdefault(k, 0)
            cov.setdefault('samples', [])
        cov['known_findings_printed'] = self.known
        cov['inconclusive'] = self.inconclusive
        cov['parts'] = self.parts
        ev = {
            'property_id': self.prop,
            'tier': self.tier,
            'seed': self.seed,
            'level': self.level,
            'coverage': cov,
            'assumptions': self.assumptions,
            'wall_s': round(time.time() - self.t0, 2),
            'violations': len(self.violations),
        }
        with open(os.path.join(EVIDENCE, self.prop + '.json'), 'w') as f:
            json.dump(ev, f, indent=1)
        for k in self.known:
            print('KNOWN-FINDING: property=%s %s' % (self.prop, k))
        for what, path in self.violations:
            print('VIOLATION property=%s replay=%s' % (self.prop, path))
            print('  ' + what)
        if self.violations:
            return 1
        if self.inconclusive:
            for i in self.inconclusive:
                print('INCONCLUSIVE property=%s %s' % (self.prop, i))
            return 2
        print('OK property=%s tier=%s wall=%.1fs' % (self.prop, self.tier, time.time() - self.t0))
        return 0


def merge_gosym(rep, res, label):
    """Fold one gosym result into the report's coverage counters."""
    c = rep.coverage
    c['states'] = c.get('states', 0) + res.get('paths_completed', 0)
    c['transitions'] = c.get('transitions', 0) + res.get('solver_queries', 0)
    c.setdefault('samples', [])
    for s in (res.get('samples') or [])[:3]:
        c['samples'].append({'harness': label, 'decisions': (s.get('trace') or [])[:40],
                             'inputs': [(i['name'], i['value']) for i in (s.get('inputs') or [])][:24], 'end': s.get('end')})
    c['solver_seconds'] = round(c.get('solver_seconds', 0) + res.get('solver_seconds', 0), 2)
    c['instructions_interpreted'] = c.get('instructions_interpreted', 0) + res.get('instructions_interpreted', 0)
    fs = set(c.get('functions_encoded', []))
    for f in res.get('functions') or []:
        if MODULE in f or 'moorara/algo' in f or f.startswith('lexer') or '/' not in f.split('.')[0]:
            fs.add(f)
    c['functions_encoded'] = sorted(fs)[:400]
    st = dict(c.get('stubs', {}))
    for k, v in (res.get('stubs_called') or {}).items():
        st[k] = st.get(k, 0) + v
    c['stubs'] = st
    rep.parts.append({
        'harness': label, 'paths': res.get('paths'), 'completed': res.get('paths_completed'),
        'assumed_away': res.get('paths_assumed_away'), 'unwind': res.get('paths_unwind'), 'panic_paths': res.get('paths_panic'),
        'queries': res.get('solver_queries'), 'sat': res.get('queries_sat'), 'unsat': res.get('queries_unsat'),
        'unknown': res.get('queries_unknown'), 'solver_s': round(res.get('solver_seconds', 0), 2),
        'wall_s': round(res.get('wall_seconds', 0), 2), 'assertions': res.get('assertions_checked'),
        'obligations': res.get('obligations_checked'), 'reached': res.get('reached'), 'summaries': res.get('summaries'),
        'cross_solver_queries': res.get('cross_solver_queries'), 'solver': res.get('solver'), 'cross': res.get('cross_solvers'),
    })
    for i in res.get('inconclusive') or []:
        rep.inconc('%s: %s' % (label, i))
    if res.get('error'):
        rep.inconc('%s: %s' % (label, res['error'][:500]))
