"""C08: the emitted lexer is valid stand-alone Go encoding exactly the token automaton."""
import os

from common import *
import emit


def run(tier, rep):
    corp = emit.specs(tier)
    base_names = {n for n, _ in emit.specs('quick')}
    with Scratch() as sc:
        res = emit.emit_all(corp, sc)
        ok = 0
        samples = []
        for o in res:
            label = '%s' % o['text'].replace('\n', ' ')[:100]
            if o.get('panic'):
                rep.violation('the generator panics on: %s: %s' % (label, o['panic']), {'spec': o['text'], 'panic': o['panic']})
                continue
            if (o.get('parse_err') or o.get('dfa_err') or o.get('gen_err')) and o['name'] not in base_names:
                # a fixture grammar emerge itself rejects (error fixtures, grammars with unresolved conflicts): nothing is emitted
                rep.coverage['fixtures_rejected_by_emerge'] = rep.coverage.get('fixtures_rejected_by_emerge', 0) + 1
                continue
            if o.get('parse_err') or o.get('dfa_err') or o.get('gen_err'):
                rep.inconc('corpus specification is not accepted by emerge (corpus defect): %s: %s' % (label, o.get('parse_err') or o.get('dfa_err') or o.get('gen_err')))
                continue
            rc, out = emit.build_emitted(o['pkgdir'], sc)
            rep.coverage['traces_validated_against_impl'] = rep.coverage.get('traces_validated_against_impl', 0) + 1
            if rc != 0:
                rep.violation('the emitted package does not compile with the standard library only: %s\n%s' % (label, out.strip()[:600]),
                              {'spec': o['text'], 'go_vet': out[-1500:], 'replay': 'emerge -out <dir> <spec file> && cd <dir>/<name> && go mod init emitted && go vet ./...'})
                continue
            ov, hp = emit.gen_harness(o, sc)
            cfg = {'dir': o['pkgdir'], 'patterns': ['.'], 'pkg': 'emitted', 'overlay': ov, 'init_pkgs': ['emitted', 'emitted/verif', 'io'],
                   'entry': 'harnessEmittedTables', 'summaries': ['emitted.advanceDFA', 'emitted.refDelta'],
                   'cross': ['cvc5', 'z3'] if tier == 'thorough' else [], 'max_violations': 10}
            r = run_gosym(cfg, sc, 'emit_%s' % o['name'])
            merge_gosym(rep, r, 'emitted %s: advanceDFA/evalDFA vs Spec.DFA for every int state x every int32 rune' % o['name'])
            ok += 1
            if len(samples) < 3:
                samples.append({'specification': o['text'], 'states': len(o['dfa']['final'] or [])})
            for v in (r.get('violations') or [])[:3]:
                # replay: compile the harness natively inside the emitted module
                outcome = replay_emitted(o, ov, v, sc)
                what = 'emitted package for %s: %s inputs=%s native=%s' % (label, v['msg'], [(i['name'], i['value']) for i in v['inputs'] or []][:6], outcome)
                if outcome.startswith('assert-failed') or outcome.startswith('panic'):
                    rep.violation(what, {'spec': o['text'], 'inputs': v['inputs'], 'msg': v['msg'], 'native': outcome})
                else:
                    rep.inconc('counterexample did not reproduce natively: ' + what)
        rep.coverage['programs_emitted_and_encoded'] = ok
        rep.coverage['emission_corpus'] = len(corp)
        rep.coverage.setdefault('samples', [])
        rep.coverage['samples'] = (rep.coverage['samples'] + samples)[:8]
        rep.assumptions += [
            'enumerated dimension: the emission corpus of lib/emit.py (%d specifications: quotes, backslashes, control and non-ASCII symbols, WS/EOL/COMMENT tokens, an ownerless terminal%s)' % (len(corp), ', the fixture grammars' if tier == 'thorough' else ''),
            'per emitted package the claim is for every integer state and every int32 rune (no bound); the reference is Spec.DFA of the same tree (state numbering is deterministic)',
            'auxiliary, not solver-decided: `go vet` of the emitted package as a module of its own (type-checks with the standard library only)',
        ]


def replay_emitted(o, ov, v, sc):
    import json
    import re
    import shutil
    import subprocess
    pk = o['pkgdir']
    for virt, real in ov.items():
        os.makedirs(os.path.dirname(virt), exist_ok=True)
        shutil.copy(real, virt)
    with open(os.path.join(pk, 'zz_verif_replay_test.go'), 'w') as f:
        f.write('//go:build verif\n\npackage %s\n\nimport (\n\t"testing"\n\n\t"emitted/verif"\n)\n\nfunc TestVerifReplay(t *testing.T) {\n\tverif.RunReplay(map[string]func(){"%s": %s})\n}\n' % (o['name'], v['harness'], v['harness']))
    vec = sc.path('replay_emitted.json')
    with open(vec, 'w') as f:
        json.dump({'inputs': v['inputs']}, f)
    env = go_env()
    env['VERIF_REPLAY'], env['VERIF_HARNESS'] = vec, v['harness']
    p = subprocess.run(['go', 'test', '-tags', 'verif', '-vet=off', '-count=1', '-run', '^TestVerifReplay$', '-v', '.'], cwd=pk, env=env, stdout=subprocess.PIPE, stderr=subprocess.STDOUT, text=True, timeout=600)
    for virt in list(ov) + [os.path.join(pk, 'zz_verif_replay_test.go')]:
        try:
            os.remove(virt)
        except OSError:
            pass
    m = re.search(r'VERIF-REPLAY-END: (.*)', p.stdout)
    if m:
        return m.group(1).strip()
    m = re.search(r'^panic: (.*)$', p.stdout, re.M)
    return ('panic: ' + m.group(1)) if m else 'error: ' + p.stdout[-300:]
