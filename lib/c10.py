"""C10: the direct (followpos) pattern-to-DFA construction agrees with the NFA route, and both
with the documented meaning."""
import multiprocessing
import os

from common import *
import regex_ref as rr
import tv
import tvsmt

KF_NUL = 'C02-nul-epsilon'


def check_one(args):
    idx, tree, text, out, L = args
    st = tvsmt.Stats()
    res = {'idx': idx, 'text': text, 'problems': [], 'kf': []}
    errs = out.get('errs') or {}
    stages = out.get('stages') or {}
    if errs.get('ast_panic') or out.get('panic'):
        res['problems'].append({'kind': 'panic', 'what': 'the direct construction panics: %s' % (errs.get('ast_panic') or out.get('panic')), 'word': []})
    elif 'ast' in errs or 'ast' not in stages:
        res['problems'].append({'kind': 'rejected', 'what': 'the direct construction rejects a pattern of the documented language: %s' % errs.get('ast'), 'word': []})
    else:
        a = tvsmt.Auto(stages['ast'])
        w = tvsmt.regex_vs_auto(tree, a, L, st)
        if w == 'unknown':
            res['problems'].append({'kind': 'unknown', 'what': 'solver gave up', 'word': []})
        elif w is not None:
            res['problems'].append({'kind': 'language', 'route': 'ast_route', 'what': 'the directly constructed automaton and the documented meaning differ', 'word': w,
                                    'ref': rr.matches(tree, w), 'impl': a.accepts(w)})
        if 'regexToDFA' in stages:
            n = tvsmt.Auto(stages['regexToDFA'])
            r = tvsmt.bisim(a, n, st, skip_symbol_zero=True)
            if r is not None and r.get('kind') in ('unknown', 'relation too large'):
                res['problems'].append({'kind': 'unknown', 'what': 'bisimulation: ' + r['kind'], 'word': []})
            elif r is not None:
                word = r.get('word', [])
                if rr.any_node(tree, rr.impl_set_has_nul) and tvsmt.regex_vs_auto(tree, n, L, st, nul_quirk=True) is None and w is None:
                    res['kf'].append({'tag': KF_NUL, 'word': word})
                else:
                    res['problems'].append({'kind': 'routes', 'route': 'both', 'what': 'the two constructions accept different languages', 'word': word,
                                            'ast': a.accepts(word), 'nfa': n.accepts(word), 'ref': rr.matches(tree, word)})
    res['stats'] = st.__dict__
    return res


def run(tier, rep):
    thorough = tier == 'thorough'
    L = 8 if thorough else 6
    corpus = rr.corpus(tier, rep.seed)
    with Scratch() as sc:
        outs = tv.run_jobs([{'op': 'regex', 'text': text} for _, text in corpus], sc, 'c10')
        work = []
        for i, (tree, text) in enumerate(corpus):
            if outs[i] is None:
                rep.inconc('dump driver lost pattern %r' % text)
                continue
            work.append((i, tree, text, outs[i], L))
        with multiprocessing.Pool(min(10, os.cpu_count() or 1)) as pool:
            results = pool.map(check_one, work, chunksize=8)
        total = tvsmt.Stats()
        known = {k['tag']: k for k in open_findings('C10')}
        problems, kf_seen, samples = [], {}, []
        for r in results:
            s = tvsmt.Stats()
            s.__dict__.update(r['stats'])
            total.add(s)
            if len(samples) < 6:
                samples.append({'pattern': r['text'], 'verdict': 'differs' if r['problems'] else ('known-finding' if r['kf'] else 'three-way equal'), 'witness': (r['problems'] or r['kf'] or [{}])[0].get('word')})
            for k in r['kf']:
                kf_seen.setdefault(k['tag'], []).append((r['text'], k['word']))
            for p in r['problems']:
                problems.append((r['text'], p))
        jobs, idx = [], []
        for text, p in problems[:12]:
            jobs.append({'op': 'accept', 'text': text, 'word': p.get('word') or []})
            idx.append(('p', text, p))
        for tag, lst in kf_seen.items():
            jobs.append({'op': 'accept', 'text': lst[0][0], 'word': lst[0][1]})
            idx.append(('kf', tag, lst[0]))
        routs = tv.run_jobs(jobs, sc, 'c10replay') if jobs else []
        for (kind, a, b), o in zip(idx, routs):
            rep.coverage['disagreements_checked'] = rep.coverage.get('disagreements_checked', 0) + 1
            acc = (o or {}).get('accept') or {}
            if kind == 'kf':
                if acc.get('nfa_route') != acc.get('ast_route') and a in known:
                    rep.known_finding('%s %s [witness: pattern %r, word %r: NFA route %s, direct route %s; %d patterns differ only by this quirk]' % (a, known[a]['what'], b[0], ''.join(map(chr, b[1])), acc.get('nfa_route'), acc.get('ast_route'), len(kf_seen[a])))
                elif a not in known:
                    rep.violation('pattern %r word %r: routes differ (%r)' % (b[0], b[1], acc), {'pattern': b[0], 'word': b[1], 'native': acc})
                else:
                    rep.inconc('known-finding witness did not reproduce: %r %r' % (b, acc))
                continue
            text, p = a, b
            if p['kind'] == 'unknown':
                rep.inconc('pattern %r: %s' % (text, p['what']))
                continue
            if p['kind'] == 'language' and str(acc.get('ast_route')).lower() != str(p['impl']).lower():
                rep.inconc('witness did not reproduce natively: pattern %r word %r native %r' % (text, p['word'], acc))
                continue
            if p['kind'] == 'routes' and acc.get('ast_route') == acc.get('nfa_route'):
                rep.inconc('route difference did not reproduce natively: pattern %r word %r native %r' % (text, p['word'], acc))
                continue
            rep.violation('pattern %r: %s; witness word %r (documented: %s; native: %s)' % (text, p['what'], ''.join(map(chr, p.get('word') or [])), p.get('ref'), acc),
                          {'pattern': text, 'word': p.get('word'), 'kind': p['kind'], 'native': acc})
        rep.coverage.update({
            'programs': len(work), 'samples': samples, 'queries': total.queries, 'queries_sat': total.sat, 'queries_unsat': total.unsat, 'queries_unknown': total.unknown,
            'solver_seconds': round(total.seconds, 2), 'word_length_bound': L, 'patterns_differing': len(problems),
            'patterns_in_known_finding_class': sum(len(v) for v in kf_seen.values()),
            'functions_run': ['regex/parser/ast.Parse', '(*AST).ToDFA', 'spec.regexToDFA'],
        })
        rep.coverage.setdefault('disagreements_checked', 0)
        rep.assumptions += [
            'same pattern corpus as C02 (enumerated dimension); solver dimension: words <= %d for the denotation query, all code points except U+0000 with no length bound for route equality (bisimulation step)' % L,
            'reference meaning: /verif/ref/regex_ref.py',
        ]
